#!/bin/bash
# usage: tools_mutant_all.sh [name-regex]   -- runs every seeded change (seeded/<ID>-m<k>/patch.diff and seeded/self/<id>-*.diff) against the quick
# check(s) of the property it targets; writes seeded/RESULTS.txt. REPO (default /repo) is the tree the patches are applied to (and undone in);
# when REPO is not /repo the harness' path dependency is redirected to it (for background runs on a snapshot: vp run --with-repo).
V="$(cd "$(dirname "$0")" && pwd)"; R="${REPO:-/repo}"; pat="${1:-}"
export VERIF_DIR="$V"
if [ "$R" != "/repo" ]; then sed -i "s|path = \"/repo\"|path = \"$R\"|" "$V/harness/Cargo.toml"; fi
cd "$R" || exit 2
if ! git diff --quiet; then echo "$R has uncommitted changes"; exit 2; fi
out="$V/seeded/RESULTS.txt"; [ -z "$pat" ] && : > "$out"
extra() { case "$1" in C06) echo "C07";; C07) echo "C06";; C03) echo "C10 C17";; C10) echo "C17 C03";; C02) echo "C01 C13 C18";; C13) echo "C02 C18";; C05) echo "C03 C17";; C12) echo "C06";; C08) echo "C01 C04";; C16) echo "C02";; C17) echo "C10";; C15) echo "C02 C01";; C18) echo "C15";; C11) echo "C19";; *) echo "";; esac; }
for p in "$V"/seeded/C*-m*/patch.diff "$V"/seeded/self/c*.diff; do
  [ -f "$p" ] || continue
  case "$p" in */self/*) name="self/$(basename "$p" .diff)"; id="$(basename "$p" | cut -c1-3 | tr c C)";; *) name="$(basename "$(dirname "$p")")"; id="${name%%-*}";; esac
  [ -n "$pat" ] && [[ ! "$name" =~ $pat ]] && continue
  if grep -q '"status": "obsolete' "$(dirname "$p")/meta.json" 2>/dev/null && [[ "$p" != */self/* ]]; then echo "$name: obsolete (see its meta.json)" | tee -a "$out"; continue; fi
  if ! git apply "$p" 2>/dev/null && ! git apply -C1 "$p" 2>/dev/null; then echo "$name: patch does not apply on $(git log --format=%h -1)" | tee -a "$out"; continue; fi
  res=""
  for prop in $id $(extra $id); do
    o=$("$V/check.sh" $prop quick 2>&1); rc=$?
    sig=$(echo "$o" | grep -E "signature=" | head -1 | sed 's/.*signature=//' | cut -c1-140)
    if [ $rc -eq 1 ]; then res="$res CAUGHT-by-$prop[$sig]"; [ "$prop" = "$id" ] && break; else res="$res $prop:exit$rc"; fi
  done
  echo "$name:$res" | tee -a "$out"
  git checkout -- .
done
