#!/bin/bash
# usage: fuzz_campaign.sh <property-id>   (called by check.sh in the thorough tier, after the generated search)
# Coverage-guided campaigns (libFuzzer, cargo-fuzz) over the controlled-schedule / sequential parts of the property: the input bytes are decoded
# by the part's structure-aware decoder into a case of its generator's domain, the part's oracle runs inside the target, known findings are
# tolerated in-target (counted). Bounded by -runs, seeded by VERIF_SEED, fresh corpus (16 pseudo-random seed files) per campaign.
# exit 0: nothing found; 1: VIOLATION line printed; 2: inconclusive / harness problem
V="$(cd "$(dirname "$0")" && pwd)"; export VERIF_DIR="${VERIF_DIR:-$V}"; export CARGO_NET_OFFLINE=true
id="$1"
case "$id" in
  C01) parts="uni-delivery-sched";; C02) parts="rings-sched uni-fifo-sched";; C03) parts="multi-fanout-sched";; C04) parts="uni-wakeup-sched multi-wakeup-sched";;
  C05) parts="payload-life-sched payload-life-seq";; C06) parts="graceful-end-all-sched";; C07) parts="cancel-all-sched end-one-sched";; C08) parts="reserved-slots-seq reserved-slots-sched";;
  C09) parts="mmap-log-sched";; C10) parts="listener-lifetimes-seq";; C13) parts="pool-sched";; C14) parts="handles-sched";; C15) parts="wrap-diff-channels";;
  C16) parts="rejected-send-sched rejected-send-seq";; C17) parts="listener-churn-sched";; C18) parts="standalone-sched";; C19) parts="average-sched";; C20) parts="suspended-async-sched";;
  *) exit 0;;
esac
cd "$V/fuzz" || exit 2
if ! cargo +nightly fuzz build --fuzz-dir . --dev -s none >build.log 2>&1; then
    echo "HARNESS-ERROR: fuzz build failed (see $(pwd)/build.log)"; tail -20 build.log; exit 2
fi
seed="${VERIF_SEED:-20260929}"; runs="${VERIF_FUZZ_RUNS:-30000}"; rc=0
for part in $parts; do
    corpus="$VERIF_DIR/evidence/fuzz-corpus/$part"; rm -rf "$corpus"; mkdir -p "$corpus" "$VERIF_DIR/evidence/replays"
    python3 "$V/tools/fuzz_seed.py" "$corpus" "$seed"
    log="$VERIF_DIR/evidence/fuzz-$part.log"
    RMV_FUZZ_PART="$part" ./target/x86_64-unknown-linux-gnu/debug/case "$corpus" -runs="$runs" -seed="$(( seed % 2147483647 + 1 ))" -max_len=1024 -len_control=0 -timeout=120 -rss_limit_mb=16384 \
        -artifact_prefix="$VERIF_DIR/evidence/replays/$id-$part-fuzz-" -print_final_stats=1 >"$log" 2>&1; frc=$?
    if grep -q "^VIOLATION property=" "$log"; then grep -A3 "^VIOLATION property=" "$log" | cut -c1-2000; rc=1
    elif [ $frc -ne 0 ]; then
        art=$(grep -o "Test unit written to .*" "$log" | tail -1 | sed 's/Test unit written to //')
        if grep -q "libFuzzer: timeout" "$log"; then echo "INCONCLUSIVE property=$id part=$part: a fuzz input ran into libFuzzer's timeout ($art)"; [ $rc -eq 0 ] && rc=2
        else echo "VIOLATION property=$id replay=$art"; echo "  part=$part signature=$part/crash-under-libfuzzer (replay: ./check.sh fuzz-replay $part $art)"; grep -m3 -E "ERROR|SUMMARY|panicked" "$log" | cut -c1-300; rc=1; fi
    fi
    echo "fuzz part=$part runs=$runs $(grep -E "stat::number_of_executed_units|stat::new_units_added" "$log" | tr '\n' ' ') $(cat "$VERIF_DIR/evidence/fuzz-$part.stats.json" 2>/dev/null)"
done
python3 "$V/tools/fuzz_merge.py" "$id" $parts
exit $rc
