#!/bin/bash
# Runs the repository's pinned suite with the `verif` feature OFF and compares with /root/.vp/BASELINE.json (stable_pass).
# (cargo-nextest cannot list this crate's tests -- a ctor logs to stdout while listing -- so this is the baseline's documented fallback: cargo test)
cd /repo || exit 2
export CARGO_NET_OFFLINE=true
LOG=$(mktemp /tmp/baseline_off.XXXXXX.log)
cargo test --workspace --no-fail-fast --offline >"$LOG" 2>&1
python3 - "$LOG" <<'PY'
import json,re,sys
log=open(sys.argv[1]).read()
base=json.load(open('/root/.vp/BASELINE.json'))
stable=set(base['stable_pass'])
passed=set(); failed=set()
target=None
for line in log.splitlines():
    m=re.match(r'\s*Running (?:unittests )?(\S+)',line)
    if m:
        p=m.group(1)
        if p.startswith('src/lib.rs'): target='reactive_mutiny'
        elif p.startswith('tests/'): target=p.split('/')[1].split('.')[0]
        else: target=None
        continue
    if re.match(r'\s*Doc-tests',line): target='doctest'; continue
    m=re.match(r'test (\S+) \.\.\. (ok|FAILED)',line)
    if m and target and target!='doctest':
        name=target+'::'+m.group(1)
        (passed if m.group(2)=='ok' else failed).add(name)
missing=sorted(s for s in stable if s not in passed)
print(f"baseline(off): {len(passed&stable)}/{len(stable)} stable tests passed; failing-or-missing stable tests: {missing}")
sys.exit(0 if not missing else 1)
PY
rc=$?
rm -f "$LOG"
exit $rc
