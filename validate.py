#!/opt/veriftools/pyvenv/bin/python
import json,jsonschema,glob,sys
m=json.load(open('/verif/MANIFEST.json'))
jsonschema.validate(m,json.load(open('/root/.vp/MANIFEST.schema.json')))
es=json.load(open('/root/.vp/EVIDENCE.schema.json'))
for f in sorted(glob.glob('/verif/evidence/C*.json')):
    jsonschema.validate(json.load(open(f)),es)
ids={c['property_id'] for c in m['checks']}|{n['property_id'] for n in m['not_applicable']}
assert ids=={"C%02d"%i for i in range(1,21)}, ids
print('manifest + evidence valid; claimed:',sorted(c['property_id'] for c in m['checks']))
