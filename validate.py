#!/opt/veriftools/pyvenv/bin/python
import json,jsonschema,glob,sys
m=json.load(open('/verif/MANIFEST.json'))
jsonschema.validate(m,json.load(open('/root/.vp/MANIFEST.schema.json')))
es=json.load(open('/root/.vp/EVIDENCE.schema.json'))
for f in sorted(glob.glob('/verif/evidence/C[0-9][0-9].json')):
    e=json.load(open(f)); jsonschema.validate(e,es)
    assert e['coverage']['evaluations']>=1 and e['coverage']['distinct_nontrivial']>=2, (f, 'empty evidence: re-run the check before committing')
    assert e.get('violations',0)==0, (f,'evidence of a run with violations')
ids={c['property_id'] for c in m['checks']}|{n['property_id'] for n in m['not_applicable']}
assert ids=={"C%02d"%i for i in range(1,21)}, ids
print('manifest + evidence valid; claimed:',sorted(c['property_id'] for c in m['checks']))
