//! Oracles over call/return histories: Wing-Gong / Lowe style linearizability search (5.2) and
//! the interval rules for negative answers (5.3).

use serde::{Deserialize, Serialize};
use std::collections::HashSet;

#[derive(Clone, Copy, Debug, PartialEq, Eq, Serialize, Deserialize)]
pub enum Act {
    /// insert `v`: answered accepted (`true`) or rejected-as-full (`false`)
    Put { v: u64, ok: bool },
    /// remove: answered `Some(v)` or nothing
    Get { got: Option<u64> },
}

#[derive(Clone, Copy, Debug, PartialEq, Eq, Serialize, Deserialize)]
pub struct Op {
    pub thread: u8,
    pub act:    Act,
    /// stamps from one global, totally ordered event counter
    pub call:   u64,
    pub ret:    u64,
}

#[derive(Clone, Copy, Debug, PartialEq, Eq)]
pub enum Model {
    Fifo,
    Lifo,
}

/// How "full" answers are treated by the sequential model
#[derive(Clone, Copy, Debug, PartialEq, Eq)]
pub enum FullRule {
    /// a rejected `Put` must find exactly `capacity` elements inside at its linearization point
    Exact(usize),
    /// rejected `Put`s are no-ops for the model (their legitimacy is judged by [reject_legit])
    Ignore,
}

/// Is there a linearization of `ops` (consistent with real time: A before B if `A.ret < B.call`) explained by
/// the sequential `model` starting from `initial` contents?
pub fn linearizable(ops: &[Op], model: Model, full: FullRule, initial: &[u64]) -> bool {
    let ops: Vec<Op> = ops.iter().copied()
        .filter(|o| !(full == FullRule::Ignore && matches!(o.act, Act::Put { ok: false, .. })))
        .collect();
    let n = ops.len();
    assert!(n <= 64, "history too long for the exhaustive search");
    let mut seen: HashSet<(u64, Vec<u64>)> = HashSet::new();
    let mut state: Vec<u64> = initial.to_vec();
    fn go(ops: &[Op], done: u64, state: &mut Vec<u64>, model: Model, full: FullRule, seen: &mut HashSet<(u64, Vec<u64>)>) -> bool {
        let n = ops.len();
        if done == (if n == 64 { u64::MAX } else { (1u64 << n) - 1 }) { return true; }
        if !seen.insert((done, state.clone())) { return false; }
        // earliest return among the pending operations: only operations called before it may go first
        let min_ret = (0..n).filter(|i| done & (1 << i) == 0).map(|i| ops[i].ret).min().unwrap();
        for i in 0..n {
            if done & (1 << i) != 0 || ops[i].call > min_ret { continue; }
            match ops[i].act {
                Act::Put { v, ok: true } => {
                    if let FullRule::Exact(cap) = full { if state.len() >= cap { continue; } }
                    state.push(v);
                    if go(ops, done | (1 << i), state, model, full, seen) { return true; }
                    state.pop();
                },
                Act::Put { ok: false, .. } => {
                    if let FullRule::Exact(cap) = full { if state.len() < cap { continue; } }
                    if go(ops, done | (1 << i), state, model, full, seen) { return true; }
                },
                Act::Get { got: None } => {
                    if !state.is_empty() { continue; }
                    if go(ops, done | (1 << i), state, model, full, seen) { return true; }
                },
                Act::Get { got: Some(v) } => {
                    match model {
                        Model::Fifo => {
                            if state.first() != Some(&v) { continue; }
                            state.remove(0);
                            if go(ops, done | (1 << i), state, model, full, seen) { return true; }
                            state.insert(0, v);
                        },
                        Model::Lifo => {
                            if state.last() != Some(&v) { continue; }
                            state.pop();
                            if go(ops, done | (1 << i), state, model, full, seen) { return true; }
                            state.push(v);
                        },
                    }
                },
            }
        }
        false
    }
    go(&ops, 0, &mut state, model, full, &mut seen)
}

/// An interval during which one slot of the container may have been taken (5.3): from the *call* of the operation
/// that takes it until the *return* of the operation that frees it (`u64::MAX`: never freed during the run)
#[derive(Clone, Copy, Debug)]
pub struct Occupancy {
    pub from: u64,
    pub to:   u64,
}

/// First rule of 5.3: a "full" answer over `[call, ret]` is legitimate iff at some instant of the call
/// at least `capacity` slots could have been taken (every uncertainty resolved in favour of the implementation).
pub fn reject_legit(call: u64, ret: u64, others: &[Occupancy], capacity: usize) -> bool {
    // candidate instants: the call itself and every start of an occupancy inside the call
    let mut instants = vec![call];
    instants.extend(others.iter().map(|o| o.from).filter(|&f| f > call && f <= ret));
    instants.iter().any(|&t| others.iter().filter(|o| o.from <= t && t <= o.to).count() >= capacity)
}

/// Second rule of 5.3: a "nothing" answer over `[call, ret]` is legitimate iff there is no element
/// that was inside during the whole call: inserted by an operation that had *returned* before `call`
/// and not even *started* to be removed before `ret`. `present`: `(put_ret, get_call or u64::MAX)`.
pub fn empty_legit(call: u64, ret: u64, present: &[(u64, u64)]) -> bool {
    !present.iter().any(|&(put_ret, get_call)| put_ret < call && get_call > ret)
}

/// Pattern checks that are complete for queues over long histories (used by the free-running engine)
/// -- returns a description of the first problem found.
pub fn fifo_patterns(ops: &[Op]) -> Option<String> {
    use std::collections::HashMap;
    let mut put: HashMap<u64, &Op> = HashMap::new();
    let mut got: HashMap<u64, &Op> = HashMap::new();
    for o in ops {
        match o.act {
            Act::Put { v, ok: true } => { if put.insert(v, o).is_some() { return Some(format!("value {v:#x} inserted twice (harness bug)")); } },
            Act::Get { got: Some(v) } => { if got.insert(v, o).is_some() { return Some(format!("value {v:#x} removed twice")); } },
            _ => {},
        }
    }
    for (v, g) in &got {
        match put.get(v) {
            None => return Some(format!("value {v:#x} removed but never inserted")),
            Some(p) => if g.ret < p.call { return Some(format!("value {v:#x} removed before it was inserted")); },
        }
    }
    // order: put(a) wholly before put(b) and get(b) wholly before get(a)
    let vals: Vec<u64> = got.keys().copied().collect();
    for &a in &vals {
        for &b in &vals {
            if a == b { continue; }
            let (pa, pb, ga, gb) = (put[&a], put[&b], got[&a], got[&b]);
            if pa.ret < pb.call && gb.ret < ga.call {
                return Some(format!("order: {a:#x} inserted before {b:#x} but removed after it"));
            }
        }
    }
    // inserted (wholly before) an element that was removed, but itself never removed although removals happened wholly after
    None
}

#[cfg(test)]
mod tests {
    use super::*;
    fn op(t: u8, act: Act, call: u64, ret: u64) -> Op { Op { thread: t, act, call, ret } }

    #[test]
    fn simple_fifo() {
        let h = [
            op(0, Act::Put { v: 1, ok: true }, 1, 2),
            op(0, Act::Put { v: 2, ok: true }, 3, 4),
            op(1, Act::Get { got: Some(1) }, 5, 6),
            op(1, Act::Get { got: Some(2) }, 7, 8),
            op(1, Act::Get { got: None }, 9, 10),
        ];
        assert!(linearizable(&h, Model::Fifo, FullRule::Ignore, &[]));
        assert!(!linearizable(&h, Model::Lifo, FullRule::Ignore, &[]));
    }

    #[test]
    fn false_empty_detected() {
        // put returns, then a get that starts afterwards answers nothing although nobody took the element
        let h = [
            op(0, Act::Put { v: 1, ok: true }, 1, 2),
            op(1, Act::Get { got: None }, 3, 4),
        ];
        assert!(!linearizable(&h, Model::Fifo, FullRule::Ignore, &[]));
        // overlapping: fine
        let h = [
            op(0, Act::Put { v: 1, ok: true }, 1, 4),
            op(1, Act::Get { got: None }, 2, 3),
        ];
        assert!(linearizable(&h, Model::Fifo, FullRule::Ignore, &[]));
    }

    #[test]
    fn full_exact() {
        let h = [
            op(0, Act::Put { v: 1, ok: true }, 1, 2),
            op(0, Act::Put { v: 2, ok: false }, 3, 4),
        ];
        assert!(linearizable(&h, Model::Lifo, FullRule::Exact(1), &[]));
        assert!(!linearizable(&h, Model::Lifo, FullRule::Exact(2), &[]));
    }

    #[test]
    fn reject_rule() {
        // capacity 2, two elements inside during the whole call
        let occ = [Occupancy { from: 1, to: u64::MAX }, Occupancy { from: 3, to: 20 }];
        assert!(reject_legit(10, 12, &occ, 2));
        assert!(!reject_legit(21, 22, &occ, 2));
    }
}
