//! Payloads carried through the containers under test.

use std::sync::{Arc, Mutex};

/// `Plain` payload: a `u64` packing `producer (8 bits) | seq (24 bits) | checksum (32 bits)`.
/// 0 is never a valid payload (checksum of (0,0) is non-zero), so default-filled slots are detectable.
pub fn plain(producer: u8, seq: u32) -> u64 {
    let hi = ((producer as u64) << 24) | (seq as u64 & 0xff_ffff);
    (hi << 32) | checksum(hi) as u64
}

fn checksum(hi: u64) -> u32 {
    let mut x = hi.wrapping_mul(0x9E3779B97F4A7C15) ^ 0xA5A5_5A5A_1234_5678;
    x ^= x >> 29;
    x = x.wrapping_mul(0xBF58476D1CE4E5B9);
    x ^= x >> 32;
    (x as u32) | 1
}

/// `Some((producer, seq))` if `v` is an intact payload
pub fn decode(v: u64) -> Option<(u8, u32)> {
    let hi = v >> 32;
    if checksum(hi) as u64 == (v & 0xffff_ffff) {
        Some(((hi >> 24) as u8, (hi & 0xff_ffff) as u32))
    } else {
        None
    }
}

pub fn show(v: u64) -> String {
    match decode(v) {
        Some((p, s)) => format!("p{p}#{s}"),
        None => format!("CORRUPT({v:#x})"),
    }
}

/// Records the destruction of [Tracked] payloads
#[derive(Default, Debug)]
pub struct Ledger {
    inner: Mutex<LedgerInner>,
}
#[derive(Default, Debug)]
struct LedgerInner {
    /// per payload value: number of times its destructor ran
    drops:   std::collections::BTreeMap<u64, u32>,
    /// destructor ran on something that is not an intact payload (garbage / never-written slot / already destroyed)
    corrupt: u32,
    /// order of destruction (value)
    order:   Vec<u64>,
}

impl Ledger {
    pub fn new() -> Arc<Self> { Arc::new(Self::default()) }
    fn note(&self, val: u64, ok: bool) {
        let mut g = self.inner.lock().unwrap();
        if !ok { g.corrupt += 1; return; }
        *g.drops.entry(val).or_insert(0) += 1;
        g.order.push(val);
    }
    pub fn drops_of(&self, val: u64) -> u32 { self.inner.lock().unwrap().drops.get(&val).copied().unwrap_or(0) }
    pub fn corrupt(&self) -> u32 { self.inner.lock().unwrap().corrupt }
    pub fn all(&self) -> Vec<(u64, u32)> { self.inner.lock().unwrap().drops.iter().map(|(k, v)| (*k, *v)).collect() }
    pub fn total(&self) -> u32 { self.inner.lock().unwrap().drops.values().sum() }
}

thread_local! {
    /// the ledger destructors running on this thread report to (set by the harness on every thread that belongs to a case)
    static CURRENT: std::cell::RefCell<Option<Arc<Ledger>>> = const { std::cell::RefCell::new(None) };
}

pub fn current_ledger() -> Option<Arc<Ledger>> { CURRENT.try_with(|c| c.borrow().clone()).ok().flatten() }
pub fn set_current_ledger(l: Option<Arc<Ledger>>) { let _ = CURRENT.try_with(|c| *c.borrow_mut() = l); }

const CANARY: u64 = 0xC0FF_EE00_DEAD_BEA7;
const DEAD:   u64 = 0xDEAD_DEAD_DEAD_DEAD;

/// Payload with a destructor that reports to the calling thread's current [Ledger]. It holds no pointer, so
/// running the destructor on garbage (a never-written pool slot, a slot destroyed twice) is harmless for the
/// harness and is *recorded* instead of crashing. `Tracked::default()` is an inert sentinel (the rings pre-fill
/// their `ManuallyDrop` slots with defaults).
#[derive(Debug)]
pub struct Tracked {
    pub val: u64,
    canary:  u64,
}

impl Tracked {
    pub fn new(val: u64) -> Self { Tracked { val, canary: CANARY ^ val } }
    pub fn intact(&self) -> bool { self.canary == CANARY ^ self.val && decode(self.val).is_some() }
}

impl Default for Tracked {
    fn default() -> Self { Tracked { val: 0, canary: 0 } }
}

impl Drop for Tracked {
    fn drop(&mut self) {
        if self.val == 0 && self.canary == 0 { return; }      // inert sentinel
        let ok = self.intact();
        let val = self.val;
        let _ = CURRENT.try_with(|c| if let Some(l) = c.borrow().as_ref() { l.note(val, ok); });
        self.canary = DEAD;
    }
}
