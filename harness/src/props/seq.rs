//! E2: sequential model-based histories over the channels. One interpreter runs a generated operation list against the real
//! channel and against a plain reference model, comparing after every step; the list of observations it produces is also the
//! input of the differential wrap-around check (C15). Serves C08 (reserved slots), C10 (listener lifetimes / id recycling),
//! C15 (counter wrap), C16 (rejected sends, sequential part) and the sequential part of C05.

use crate::chan::{self, Chan, ChanKind, Entry, Gate, Item, StreamH};
use crate::driver::{pick, Property, RunReport, Tier, Verdict};
use crate::payload::{self, Ledger};
use crate::sched::{noop_waker, EndState};
use proptest::collection::vec;
use proptest::prelude::*;
use serde::{Deserialize, Serialize};
use std::collections::{BTreeMap, HashMap, VecDeque};
use std::future::Future;
use std::sync::atomic::Ordering::Relaxed;
use std::sync::Arc;
use std::task::{Context, Poll};

#[derive(Clone, Copy, Debug, PartialEq, Eq, Serialize, Deserialize)]
pub enum SOp {
    Create,
    /// drop the i-th live stream (with whatever it has not consumed)
    DropStream(u8),
    Send(Entry),
    /// poll the i-th live stream once; an item is kept (held) by the consumer
    Recv(u8),
    /// poll the i-th live stream until it answers Pending / End, keeping the items
    RecvAll(u8),
    /// release the j-th held item
    Release(u8),
    ReleaseAll,
    Reserve,
    /// fill + try_send_reserved of the i-th outstanding reservation (the movable atomic channel: always the oldest)
    SendReserved(u8),
    /// try_cancel_slot_reserve of the i-th outstanding reservation counted from the newest (the movable atomic channel: always the newest)
    CancelReserved(u8),
    CancelAll,
    Len,
}

#[derive(Clone, Debug, Serialize, Deserialize)]
pub struct SeqCase {
    pub kind:        ChanKind,
    pub buffer:      u8,
    pub max_streams: u8,
    pub origin:      u32,
    pub ops:         Vec<SOp>,
}

struct MListener { queue: VecDeque<u64>, cancelled: bool }

/// the reference model
struct Model {
    kind: ChanKind,
    b:    usize,
    uni:  VecDeque<u64>,
    listeners: Vec<MListener>,          // live ones, in creation order (same order as the harness' list of live streams)
    reserved:  Vec<u64>,
    held:      Vec<u64>,
    /// Multi ogre_arc: references outstanding per event (copies in listener queues + held handles)
    refs:      HashMap<u64, u32>,
}

impl Model {
    fn occupied(&self) -> usize {
        match self.kind {
            k if k.is_zero_copy() => self.uni.len() + self.reserved.len() + self.held.len(),
            k if k.is_uni() => self.uni.len() + self.reserved.len(),
            k if k.is_ogre_arc() => self.refs.values().filter(|n| **n > 0).count() + self.reserved.len(),
            _ => 0,
        }
    }
    fn rejects(&self) -> bool { !self.kind.is_arc() && self.occupied() >= self.b }
    /// the Arc kinds wait (for ever, single-threaded) when a listener queue is full
    fn would_wait(&self) -> bool { self.kind.is_arc() && self.listeners.iter().any(|l| l.queue.len() >= self.b) }
    fn accept(&mut self, v: u64) {
        if self.kind.is_uni() { self.uni.push_back(v); }
        else {
            let n = self.listeners.len() as u32;
            for l in self.listeners.iter_mut() { l.queue.push_back(v); }
            if self.kind.is_ogre_arc() && n > 0 { self.refs.insert(v, n); }
        }
    }
    fn pending(&self) -> u32 {
        if self.kind.is_uni() { self.uni.len() as u32 } else { self.listeners.iter().map(|l| l.queue.len()).max().unwrap_or(0) as u32 }
    }
    fn unref(&mut self, v: u64) { if let Some(n) = self.refs.get_mut(&v) { *n = n.saturating_sub(1); } }
}

pub struct SeqOutcome {
    /// one line per executed operation: what the channel answered
    pub obs:       Vec<String>,
    pub violation: Option<(String, String)>,
    pub skipped:   u32,
    pub rejected:  u32,
    pub reserved_sent: u32,
    pub reserved_cancelled: u32,
    pub laps:      u32,
    pub recycled_after_leftovers: bool,
    pub ledger:    Vec<(u64, u32)>,
    pub ledger_corrupt: u32,
    pub accepted_vals: Vec<u64>,
    pub delivered_vals: Vec<u64>,
    pub end:       EndState,
}

#[derive(Clone, Copy, PartialEq, Eq)]
pub enum Strictness {
    /// compare every answer with the model
    Model,
    /// only record observations (used for the wrap-around differential, where the reference is the origin-0 run)
    ObserveOnly,
    /// as `ObserveOnly`, but whatever is still buffered when the script ends stays there: the channel is torn down with leftovers
    /// (held items are released first, outstanding reservations are sent); the drop ledger after teardown becomes an observation
    ObserveOnlyLeftovers,
}

/// Runs `case` (as one logical thread under a scheduler, so that broken library code stalls instead of hanging)
pub fn run(case: &SeqCase, strict: Strictness, probe_capacity: bool) -> SeqOutcome {
    let case2 = case.clone();
    let ledger = Ledger::new();
    payload::set_current_ledger(Some(Arc::clone(&ledger)));
    let r = crate::sched::guarded(200_000, move || interpret(&case2, strict, probe_capacity));
    payload::set_current_ledger(None);
    match r {
        Ok(mut o) => {
            o.ledger = ledger.all(); o.ledger_corrupt = ledger.corrupt();
            if strict == Strictness::ObserveOnlyLeftovers { o.obs.push(format!("[teardown with leftovers] payloads destroyed so far: {} (on garbage: {})", o.ledger.iter().map(|(v, n)| format!("{}x{n}", payload::show(*v))).collect::<Vec<_>>().join(" "), o.ledger_corrupt)); }
            o
        },
        Err(end) => SeqOutcome { obs: vec![format!("ABNORMAL END: {:?}", match &end { EndState::Stall { .. } => "stall".to_string(), EndState::Budget => "budget".into(), EndState::Blocked { .. } => "blocked".into(), EndState::Panicked { msg, .. } => format!("panic: {msg}"), EndState::Completed => "?".into() })],
                                 violation: None, skipped: 0, rejected: 0, reserved_sent: 0, reserved_cancelled: 0, laps: 0, recycled_after_leftovers: false, ledger: vec![], ledger_corrupt: 0, accepted_vals: vec![], delivered_vals: vec![], end },
    }
}

fn idx(i: u8, len: usize) -> usize { ((i as usize * len) / 8).min(len.saturating_sub(1)) }

fn do_send(chan: &dyn Chan, entry: Entry, v: u64) -> chan::SendRes {
    match entry {
        Entry::Send => chan.send(v),
        Entry::SendWith => chan.send_with(v),
        Entry::Derived => chan::SendRes { accepted: chan.send_derived(v), contract_ok: true },
        Entry::SendAsync(k) => {
            let gate = Arc::new(Gate::default());
            gate.remaining.store(k as u32, Relaxed);
            let mut fut = chan.send_async(v, gate);
            let waker = noop_waker();
            let mut cx = Context::from_waker(&waker);
            loop { if let Poll::Ready(r) = fut.as_mut().poll(&mut cx) { break r; } }
        },
        Entry::Reserved => unreachable!(),
    }
}

fn interpret(case: &SeqCase, strict: Strictness, probe_capacity: bool) -> SeqOutcome {
    let kind = case.kind;
    let k = kind.short();
    let b = case.buffer as usize;
    let m = case.max_streams as usize;
    let chan: Arc<dyn Chan> = chan::make(kind, case.buffer, case.max_streams, case.origin);
    let mut model = Model { kind, b, uni: VecDeque::new(), listeners: vec![], reserved: vec![], held: vec![], refs: HashMap::new() };
    let mut live: Vec<Box<dyn StreamH>> = vec![];
    let mut held: Vec<Item> = vec![];
    let mut reserved: Vec<(usize, u64)> = vec![];
    let mut obs: Vec<String> = vec![];
    let mut violation: Option<(String, String)> = None;
    let mut seq = 0u32;
    let (mut skipped, mut rejected, mut reserved_sent, mut reserved_cancelled, mut accepted_total) = (0u32, 0u32, 0u32, 0u32, 0u32);
    let mut accepted_vals = vec![];
    let mut delivered_vals = vec![];
    let mut dropped_with_leftovers_ids: Vec<u32> = vec![];
    let mut recycled_after_leftovers = false;
    let waker = noop_waker();
    let with_leftovers = strict == Strictness::ObserveOnlyLeftovers;
    let strict = strict == Strictness::Model;
    macro_rules! mismatch {
        ($i:expr, $what:expr, $exp:expr, $got:expr) => {
            if strict && violation.is_none() {
                violation = Some((format!("{k}/{}/expected-{}-got-{}", $what, $exp, $got),
                                  format!("operation #{} ({}): the model expects {} but the channel answered {}; observations so far: {}", $i, $what, $exp, $got, obs.join(" | "))));
            }
        }
    }
    // one poll of live stream `si`, compared with the model
    let mut poll_one = |si: usize, i: usize, live: &mut Vec<Box<dyn StreamH>>, model: &mut Model, held: &mut Vec<Item>, obs: &mut Vec<String>, violation: &mut Option<(String, String)>, delivered_vals: &mut Vec<u64>| -> bool {
        let r = live[si].poll(&waker);
        let expect: Option<u64> = if kind.is_uni() { model.uni.front().copied() } else { model.listeners[si].queue.front().copied() };
        let cancelled = model.listeners[si].cancelled;
        match r {
            Poll::Ready(Some(item)) => {
                let v = item.val();
                obs.push(format!("recv(s#{si})={}{}", payload::show(v), if item.intact() { "" } else { "!CORRUPT" }));
                if strict && violation.is_none() {
                    if !item.intact() { *violation = Some((format!("{k}/recv/corrupt-payload"), format!("operation #{i}: stream {si} yielded a corrupted payload; observations: {}", obs.join(" | ")))); }
                    else if expect != Some(v) {
                        let what = match expect { None => "nothing-buffered".to_string(), Some(e) => payload::show(e) };
                        *violation = Some((format!("{k}/recv/wrong-event"), format!("operation #{i}: stream {si} yielded {} but the model expects {what}; observations: {}", payload::show(v), obs.join(" | "))));
                    }
                }
                if expect == Some(v) { if kind.is_uni() { model.uni.pop_front(); } else { model.listeners[si].queue.pop_front(); } }
                model.held.push(v);
                delivered_vals.push(v);
                held.push(item);
                true
            },
            Poll::Ready(None) => {
                obs.push(format!("recv(s#{si})=END"));
                if strict && violation.is_none() && (expect.is_some() || !cancelled) {
                    *violation = Some((format!("{k}/recv/unexpected-end"), format!("operation #{i}: stream {si} answered end-of-stream (model: buffered={:?}, cancelled={cancelled}); observations: {}", expect.map(payload::show), obs.join(" | "))));
                }
                false
            },
            Poll::Pending => {
                obs.push(format!("recv(s#{si})=PENDING"));
                if strict && violation.is_none() && (expect.is_some() || cancelled) {
                    *violation = Some((format!("{k}/recv/{}", if expect.is_some() { "buffered-event-not-yielded" } else { "cancelled-stream-keeps-waiting" }),
                                       format!("operation #{i}: stream {si} answered Pending (model: buffered={:?}, cancelled={cancelled}); observations: {}", expect.map(payload::show), obs.join(" | "))));
                }
                false
            },
        }
    };

    for (i, op) in case.ops.iter().enumerate() {
        if violation.is_some() { break; }
        match *op {
            SOp::Create => {
                if live.len() >= m { skipped += 1; continue; }
                let s = chan.create_stream();
                if dropped_with_leftovers_ids.contains(&s.id()) { recycled_after_leftovers = true; }
                obs.push(format!("create=s#{}", live.len()));
                live.push(s);
                model.listeners.push(MListener { queue: VecDeque::new(), cancelled: false });
            },
            SOp::DropStream(j) => {
                if live.is_empty() { skipped += 1; continue; }
                let si = idx(j, live.len());
                let s = live.remove(si);
                let l = model.listeners.remove(si);
                if kind.is_multi() && !l.queue.is_empty() { dropped_with_leftovers_ids.push(s.id()); }
                for v in l.queue { model.unref(v); }
                drop(s);
                obs.push(format!("drop(s#{si})"));
            },
            SOp::Send(entry) => {
                let entry = if kind.entries().contains(&entry) || matches!(entry, Entry::SendAsync(_)) && kind.has_async() { entry } else { Entry::Send };
                if entry == Entry::Reserved { skipped += 1; continue; }
                // documented restrictions: no plain send while a reservation is outstanding (movable atomic); the Arc kinds wait when a listener is full
                if kind == ChanKind::UniMoveAtomic && !reserved.is_empty() { skipped += 1; continue; }
                if model.would_wait() { skipped += 1; continue; }
                seq += 1;
                let v = payload::plain(1, seq);
                let expect_reject = model.rejects();
                let r = do_send(&*chan, entry, v);
                obs.push(format!("{}({})={}", crate::props::uni::entry_name(entry), payload::show(v), if r.accepted { "ok" } else { "REJECTED" }));
                if !r.contract_ok { mismatch!(i, "send", "input-handed-back-untouched-or-setter-run-once", "contract-broken"); }
                if r.accepted == expect_reject { mismatch!(i, crate::props::uni::entry_name(entry), if expect_reject { "rejected" } else { "accepted" }, if r.accepted { "accepted" } else { "rejected" }); }
                if r.accepted { model.accept(v); accepted_total += 1; accepted_vals.push(v); } else { rejected += 1; }
            },
            SOp::Recv(j) | SOp::RecvAll(j) => {
                if live.is_empty() { skipped += 1; continue; }
                let si = idx(j, live.len());
                let all = matches!(op, SOp::RecvAll(_));
                let mut guard = 0;
                loop {
                    guard += 1;
                    let more = poll_one(si, i, &mut live, &mut model, &mut held, &mut obs, &mut violation, &mut delivered_vals);
                    if !all || !more || guard > 4 * b + 8 { break; }
                }
            },
            SOp::Release(j) => {
                if held.is_empty() { skipped += 1; continue; }
                let hi = idx(j, held.len());
                let it = held.remove(hi);
                let v = model.held.remove(hi);
                let ok = it.intact() && it.val() == v;
                drop(it);
                model.unref(v);
                obs.push(format!("release({}){}", payload::show(v), if ok { "" } else { "!CHANGED-WHILE-HELD" }));
                if !ok { mismatch!(i, "release", "payload-intact", "payload-changed-while-held"); }
            },
            SOp::ReleaseAll => {
                while let Some(it) = held.pop() {
                    let v = model.held.pop().unwrap();
                    let ok = it.intact() && it.val() == v;
                    drop(it);
                    model.unref(v);
                    if !ok { obs.push(format!("release({})!CHANGED-WHILE-HELD", payload::show(v))); mismatch!(i, "release", "payload-intact", "payload-changed-while-held"); }
                }
                obs.push("release-all".into());
            },
            SOp::Reserve => {
                if !kind.has_reserve() { skipped += 1; continue; }
                let expect_none = model.rejects();
                let r = chan.reserve();
                obs.push(format!("reserve={}", if r.is_some() { "slot" } else { "NONE" }));
                if r.is_none() != expect_none { mismatch!(i, "reserve_slot", if expect_none { "none" } else { "a-slot" }, if r.is_some() { "a-slot" } else { "none" }); }
                if let Some(slot) = r { seq += 1; let v = payload::plain(2, seq); reserved.push((slot, v)); model.reserved.push(v); }
            },
            SOp::SendReserved(j) => {
                if reserved.is_empty() { skipped += 1; continue; }
                let ri = if kind == ChanKind::UniMoveAtomic { 0 } else { idx(j, reserved.len()) };
                let (slot, v) = reserved.remove(ri);
                model.reserved.remove(ri);
                chan.fill(slot, v);
                let ok = chan.send_reserved(slot);
                obs.push(format!("send_reserved({})={ok}", payload::show(v)));
                if !ok { mismatch!(i, "try_send_reserved", "true", "false"); } else { model.accept(v); accepted_total += 1; reserved_sent += 1; accepted_vals.push(v); }
            },
            SOp::CancelReserved(j) => {
                if reserved.is_empty() { skipped += 1; continue; }
                let ri = if kind == ChanKind::UniMoveAtomic { reserved.len() - 1 } else { reserved.len() - 1 - idx(j, reserved.len()) };
                let (slot, v) = reserved.remove(ri);
                model.reserved.remove(ri);
                let ok = chan.cancel_reserved(slot);
                obs.push(format!("cancel_reserved({})={ok}", payload::show(v)));
                if !ok { mismatch!(i, "try_cancel_slot_reserve", "true", "false"); } else { reserved_cancelled += 1; }
            },
            SOp::CancelAll => {
                chan.cancel_all();
                for l in model.listeners.iter_mut() { l.cancelled = true; }
                obs.push("cancel_all".into());
            },
            SOp::Len => {
                let (p, r) = (chan.pending(), chan.running());
                obs.push(format!("pending={p},running={r}"));
                if p != model.pending() { mismatch!(i, "pending_items_count", model.pending(), p); }
                if r != live.len() as u32 { mismatch!(i, "running_streams_count", live.len(), r); }
            },
        }
        if strict && violation.is_none() {
            let r = chan.running();
            if r != live.len() as u32 { obs.push(format!("running={r}")); mismatch!(i, "running_streams_count", live.len(), r); }
        }
    }
    let laps = accepted_total / case.buffer.max(1) as u32;

    // --- completion phase: every reservation is sent (oldest first), everything buffered is consumed and released
    if violation.is_none() {
        while !reserved.is_empty() {
            let (slot, v) = reserved.remove(0);
            model.reserved.remove(0);
            chan.fill(slot, v);
            let ok = chan.send_reserved(slot);
            obs.push(format!("[completion] send_reserved({})={ok}", payload::show(v)));
            if !ok { mismatch!(999, "try_send_reserved", "true", "false"); break; }
            if model.would_wait() { break; }
            model.accept(v); reserved_sent += 1; accepted_vals.push(v);
        }
    }
    if with_leftovers {
        while let Some(it) = held.pop() { let v = model.held.pop().unwrap(); drop(it); model.unref(v); }
        drop(held); drop(live); drop(chan);
        return SeqOutcome { obs, violation: None, skipped, rejected, reserved_sent, reserved_cancelled, laps, recycled_after_leftovers, ledger: vec![], ledger_corrupt: 0, accepted_vals, delivered_vals, end: EndState::Completed };
    }
    if violation.is_none() {
        if kind.is_uni() && live.is_empty() && !model.uni.is_empty() {
            live.push(chan.create_stream());
            model.listeners.push(MListener { queue: VecDeque::new(), cancelled: false });
            obs.push("[completion] create".into());
        }
        for si in 0..live.len() {
            let mut guard = 0;
            loop {
                guard += 1;
                let more = poll_one(si, 1000, &mut live, &mut model, &mut held, &mut obs, &mut violation, &mut delivered_vals);
                if !more || guard > 4 * b + 8 || violation.is_some() { break; }
                // pooled kinds: release as we go, or the drain itself would exhaust the pool
                if kind.is_pooled() { if let Some(it) = held.pop() { let v = model.held.pop().unwrap(); drop(it); model.unref(v); } }
            }
        }
        while let Some(it) = held.pop() { let v = model.held.pop().unwrap(); drop(it); model.unref(v); }
        if strict && violation.is_none() && !kind.is_arc() && probe_capacity && model.occupied() == 0 && kind.is_multi() && live.is_empty() {
            // (a Multi without listeners keeps nothing: the probe needs somebody who holds the events)
            live.push(chan.create_stream());
            model.listeners.push(MListener { queue: VecDeque::new(), cancelled: false });
            obs.push("[completion] create".into());
        }
        if strict && violation.is_none() && !kind.is_arc() && probe_capacity && model.occupied() == 0 {
            // exactly BUFFER_SIZE further events are accepted
            let mut accepted = 0;
            for n in 0..b as u32 + 1 {
                let v = payload::plain(3, n + 1);
                if chan.send(v).accepted { accepted += 1; accepted_vals.push(v); }
            }
            obs.push(format!("[completion] capacity-probe accepted {accepted} of {}", b + 1));
            if accepted != b as u32 {
                violation = Some((format!("{k}/capacity-after-completion"), format!("after every reservation was sent or cancelled and everything was consumed and released, {accepted} of BUFFER_SIZE+1={} sends were accepted (expected exactly {b}); observations: {}", b + 1, obs.join(" | "))));
            }
        }
    }
    if violation.is_some() {
        // the channel is in an unknown state: leak it
        std::mem::forget(held); std::mem::forget(live); std::mem::forget(chan);
    } else {
        drop(held); drop(live); drop(chan);
    }
    SeqOutcome { obs, violation, skipped, rejected, reserved_sent, reserved_cancelled, laps, recycled_after_leftovers, ledger: vec![], ledger_corrupt: 0, accepted_vals, delivered_vals, end: EndState::Completed }
}

// ---------------------------------------------------------------------------------------------------------------------
// generation

#[derive(Clone, Copy)]
pub struct SeqGen {
    pub kinds:   &'static [ChanKind],
    pub configs: &'static [(u8, u8)],
    pub max_len: usize,
    pub origins: bool,
    /// relative weights: create, drop, send, recv, recv_all, release, release_all, reserve, send_reserved, cancel_reserved, cancel_all, len
    pub weights: [u32; 12],
}

pub fn entry_any() -> BoxedStrategy<Entry> {
    prop_oneof![3 => Just(Entry::Send), 2 => Just(Entry::SendWith), 1 => Just(Entry::SendAsync(0)), 1 => Just(Entry::SendAsync(2)), 1 => Just(Entry::Derived)].boxed()
}

pub fn op_strategy(w: [u32; 12]) -> BoxedStrategy<SOp> {
    let mut v: Vec<(u32, BoxedStrategy<SOp>)> = vec![];
    let mut add = |wt: u32, s: BoxedStrategy<SOp>| { if wt > 0 { v.push((wt, s)); } };
    add(w[0], Just(SOp::Create).boxed());
    add(w[1], (0u8..8).prop_map(SOp::DropStream).boxed());
    add(w[2], entry_any().prop_map(SOp::Send).boxed());
    add(w[3], (0u8..8).prop_map(SOp::Recv).boxed());
    add(w[4], (0u8..8).prop_map(SOp::RecvAll).boxed());
    add(w[5], (0u8..8).prop_map(SOp::Release).boxed());
    add(w[6], Just(SOp::ReleaseAll).boxed());
    add(w[7], Just(SOp::Reserve).boxed());
    add(w[8], (0u8..8).prop_map(SOp::SendReserved).boxed());
    add(w[9], (0u8..8).prop_map(SOp::CancelReserved).boxed());
    add(w[10], Just(SOp::CancelAll).boxed());
    add(w[11], Just(SOp::Len).boxed());
    proptest::strategy::Union::new_weighted(v).boxed()
}

pub fn seq_strategy(g: SeqGen) -> BoxedStrategy<SeqCase> {
    let origin = if g.origins { prop_oneof![2 => Just(0u32), 3 => (0u32..64).prop_map(|d| u32::MAX - d)].boxed() } else { Just(0u32).boxed() };
    (any::<u16>(), any::<u16>(), origin, vec(op_strategy(g.weights), 1..=g.max_len))
        .prop_map(move |(ki, ci, origin, mut ops)| {
            let kind = pick(g.kinds, ki);
            let (buffer, max_streams) = pick(g.configs, ci);
            // every history starts with a stream, so that there is something to talk to
            ops.insert(0, SOp::Create);
            SeqCase { kind, buffer, max_streams, origin, ops }
        })
        .boxed()
}

/// structure-aware decoding of fuzzer bytes into a case of `seq_strategy(g)`'s domain
pub fn decode_seq(u: &mut arbitrary::Unstructured<'_>, g: &SeqGen) -> Option<SeqCase> {
    let b = |u: &mut arbitrary::Unstructured<'_>| -> u8 { u.arbitrary::<u8>().unwrap_or(0) };
    let kind = g.kinds[b(u) as usize % g.kinds.len()];
    let (buffer, max_streams) = g.configs[b(u) as usize % g.configs.len()];
    let origin = if g.origins { let x = b(u); if x < 100 { 0 } else { u32::MAX - (x as u32 % 64) } } else { 0 };
    let total: u32 = g.weights.iter().sum();
    let len = 1 + (u.arbitrary::<u16>().unwrap_or(0) as usize % g.max_len.max(1));
    let mut ops = vec![SOp::Create];
    for _ in 0..len {
        if u.is_empty() { break; }
        let mut pick = b(u) as u32 % total.max(1);
        let mut which = 0;
        for (i, w) in g.weights.iter().enumerate() { if pick < *w { which = i; break; } pick -= *w; }
        let a = b(u) % 8;
        ops.push(match which {
            0 => SOp::Create, 1 => SOp::DropStream(a),
            2 => SOp::Send(match a { 0 | 1 | 2 => Entry::Send, 3 | 4 => Entry::SendWith, 5 => Entry::SendAsync(0), 6 => Entry::SendAsync(2), _ => Entry::Derived }),
            3 => SOp::Recv(a), 4 => SOp::RecvAll(a), 5 => SOp::Release(a), 6 => SOp::ReleaseAll, 7 => SOp::Reserve, 8 => SOp::SendReserved(a), 9 => SOp::CancelReserved(a), 10 => SOp::CancelAll, _ => SOp::Len,
        });
    }
    Some(SeqCase { kind, buffer, max_streams, origin, ops })
}

fn fp_of(case: &SeqCase) -> u64 {
    use std::hash::{Hash, Hasher};
    let mut h = std::collections::hash_map::DefaultHasher::new();
    format!("{:?}", (case.kind, case.buffer, case.max_streams, case.origin, &case.ops)).hash(&mut h);
    h.finish()
}

fn end_verdict(k: &str, o: &SeqOutcome) -> Option<Verdict> {
    match &o.end {
        EndState::Completed => None,
        EndState::Budget => Some(Verdict::Inconclusive("step-budget".into())),
        // single-threaded histories never call an operation documented to wait at a point where it would: a call that never returns blocks inside the channel
        EndState::Blocked { .. } if !k.starts_with("multi.arc") => Some(Verdict::Violation { signature: format!("{k}/blocked-instead-of-returning"), detail: format!("a call of a single-threaded history never returned (no scheduling point for 8 s): the channel blocks the caller instead of answering; {}", o.obs.join(" | ")) }),
        EndState::Blocked { .. } => Some(Verdict::Inconclusive("blocked-in-uninstrumented-wait".into())),
        EndState::Stall { .. } => Some(Verdict::Violation { signature: format!("{k}/stall"), detail: format!("a single-threaded history made the channel spin for ever on an operation nobody will ever let succeed; {}", o.obs.join(" | ")) }),
        EndState::Panicked { msg, .. } => Some(Verdict::Violation { signature: format!("{k}/panic"), detail: format!("the channel panicked: {msg}") }),
    }
}

fn base_report(case: &SeqCase, o: SeqOutcome, nontrivial: bool, mut classes: Vec<String>, extra: Option<(String, String)>) -> RunReport {
    let k = case.kind.short();
    classes.push(format!("kind:{k}")); classes.push(format!("buffer:{}", case.buffer)); classes.push(format!("max_streams:{}", case.max_streams));
    if case.origin != 0 { classes.push("origin-near-wrap".into()); }
    if o.rejected > 0 { classes.push("rejected-send".into()); }
    if o.laps > 0 { classes.push("ring-lapped".into()); }
    let summary: String = o.obs.iter().take(60).cloned().collect::<Vec<_>>().join(" | ");
    if let Some(v) = end_verdict(k, &o) {
        let nt = matches!(v, Verdict::Violation { .. });
        return RunReport { verdict: v, nontrivial: nt, classes, fingerprint: fp_of(case), trace: None, summary };
    }
    let verdict = match o.violation.or(extra) { None => Verdict::Pass, Some((signature, detail)) => Verdict::Violation { signature, detail } };
    RunReport { verdict, nontrivial, classes, fingerprint: fp_of(case), trace: None, summary }
}

static RESERVE_KINDS: [ChanKind; 5] = [ChanKind::UniMoveAtomic, ChanKind::UniZcAtomic, ChanKind::UniZcFullSync, ChanKind::MultiOgreAtomic, ChanKind::MultiOgreFullSync];
static CFGS: [(u8, u8); 7] = [(4, 1), (4, 2), (4, 4), (8, 2), (8, 4), (2, 2), (16, 16)];
static SMALL_CFGS: [(u8, u8); 4] = [(2, 1), (2, 2), (4, 1), (4, 2)];
static ALL_CFGS: [(u8, u8); 9] = [(2, 1), (2, 2), (4, 1), (4, 2), (4, 4), (8, 2), (8, 4), (16, 16), (64, 8)];
static NON_LOG: [ChanKind; 10] = [ChanKind::UniMoveAtomic, ChanKind::UniMoveFullSync, ChanKind::UniMoveCrossbeam, ChanKind::UniZcAtomic, ChanKind::UniZcFullSync,
                                  ChanKind::MultiArcAtomic, ChanKind::MultiArcFullSync, ChanKind::MultiArcCrossbeam, ChanKind::MultiOgreAtomic, ChanKind::MultiOgreFullSync];
static REJECTING: [ChanKind; 7] = [ChanKind::UniMoveAtomic, ChanKind::UniMoveFullSync, ChanKind::UniMoveCrossbeam, ChanKind::UniZcAtomic, ChanKind::UniZcFullSync, ChanKind::MultiOgreAtomic, ChanKind::MultiOgreFullSync];

// ---------------------------------------------------------------------------------------------------------------------
// C08: reserved slots

pub struct C08Reserved;
impl Property for C08Reserved {
    type Case = SeqCase;
    fn part(&self) -> &'static str { "reserved-slots-seq" }
    fn decode(&self, u: &mut arbitrary::Unstructured<'_>) -> Option<SeqCase> { decode_seq(u, &SeqGen { kinds: &RESERVE_KINDS, configs: &ALL_CFGS, max_len: 120, origins: true, weights: [1, 1, 3, 3, 2, 2, 1, 6, 5, 3, 0, 1] }) }
    fn strategy(&self, _tier: Tier) -> BoxedStrategy<SeqCase> {
        //                                                                 cr dr sd rc ra rl rla rs sr cr ca ln
        prop_oneof![
            3 => seq_strategy(SeqGen { kinds: &RESERVE_KINDS, configs: &SMALL_CFGS, max_len: 24, origins: true, weights: [1, 1, 3, 3, 2, 2, 1, 6, 5, 3, 0, 1] }),
            1 => seq_strategy(SeqGen { kinds: &RESERVE_KINDS, configs: &ALL_CFGS, max_len: 120, origins: true, weights: [1, 1, 3, 3, 2, 2, 1, 6, 5, 3, 0, 1] }),
        ].boxed()
    }
    fn cases(&self, tier: Tier) -> u32 { match tier { Tier::Quick => 20_000, Tier::Thorough => 500_000 } }
    fn exhaustive(&self, tier: Tier) -> Option<Box<dyn Iterator<Item = SeqCase> + '_>> {
        // every history of the given length over the reservation alphabet, smallest configuration, every kind implementing the API, two origins
        let len = match tier { Tier::Quick => 5, Tier::Thorough => 7 };
        let alphabet = [SOp::Reserve, SOp::SendReserved(0), SOp::SendReserved(7), SOp::CancelReserved(0), SOp::Send(Entry::Send), SOp::RecvAll(0), SOp::ReleaseAll];
        let n = alphabet.len();
        let total = n.pow(len as u32);
        let kinds = RESERVE_KINDS;
        Some(Box::new((0..kinds.len() * 2).flat_map(move |ko| {
            let kind = kinds[ko / 2];
            let origin = if ko % 2 == 0 { 0 } else { u32::MAX - 2 };
            (0..total).map(move |mut code| {
                let mut ops = vec![SOp::Create];
                for _ in 0..len { ops.push(alphabet[code % n]); code /= n; }
                SeqCase { kind, buffer: 2, max_streams: 1, origin, ops }
            })
        })))
    }
    fn run(&self, case: &SeqCase) -> RunReport {
        let o = run(case, Strictness::Model, true);
        let nontrivial = o.reserved_sent > 0 && o.reserved_cancelled > 0 && (o.laps > 0 || case.origin != 0);
        let mut classes = vec![];
        if o.reserved_sent > 0 { classes.push("reserved-sent".into()); }
        if o.reserved_cancelled > 0 { classes.push("reserved-cancelled".into()); }
        base_report(case, o, nontrivial, classes, None)
    }
    fn rule(&self) -> String {
        "bounded-exhaustive: every history of length 5 (quick) / 7 (thorough) over {reserve, fill+send the oldest / newest reservation, cancel the newest reservation, plain send, receive-all, release-all} for BUFFER_SIZE 2 on each of the 5 kinds implementing the API, with the counters starting at 0 and at 2^32-3; \
         generated: histories up to length 24 (BUFFER_SIZE 2/4) and 120 (up to 8) with the counter origin anywhere in the last 64 values before the 32-bit wrap; documented restrictions respected by construction (movable atomic: oldest-first sends, newest-first cancels, no plain send while reserving); every history ends with a completion phase (remaining reservations sent, everything consumed and released); \
         oracle: reference model (FIFO + reservation list + held handles) compared after every step: a sent slot is delivered exactly once with the value written, a cancelled one never, reserve / send answers follow the occupancy, and after completion exactly BUFFER_SIZE of BUFFER_SIZE+1 sends are accepted; \
         non-trivial: >= 1 reservation sent and >= 1 cancelled and (the ring lapped or the origin is next to the wrap)".into()
    }
}

// ---------------------------------------------------------------------------------------------------------------------
// C10: listener lifetimes and id recycling

pub struct C10Lifetimes;
impl Property for C10Lifetimes {
    type Case = SeqCase;
    fn part(&self) -> &'static str { "listener-lifetimes-seq" }
    fn decode(&self, u: &mut arbitrary::Unstructured<'_>) -> Option<SeqCase> { decode_seq(u, &SeqGen { kinds: &NON_LOG, configs: &CFGS, max_len: 300, origins: true, weights: [5, 4, 6, 3, 2, 1, 2, 0, 0, 0, 1, 2] }) }
    fn strategy(&self, _tier: Tier) -> BoxedStrategy<SeqCase> {
        //                                                      cr dr sd rc ra rl rla rs sr cr ca ln
        prop_oneof![
            3 => seq_strategy(SeqGen { kinds: &NON_LOG, configs: &CFGS, max_len: 40, origins: true, weights: [5, 4, 6, 3, 2, 1, 2, 0, 0, 0, 1, 2] }),
            1 => seq_strategy(SeqGen { kinds: &NON_LOG, configs: &CFGS, max_len: 300, origins: true, weights: [5, 4, 6, 3, 2, 1, 2, 0, 0, 0, 1, 2] }),
        ].boxed()
    }
    fn cases(&self, tier: Tier) -> u32 { match tier { Tier::Quick => 100_000, Tier::Thorough => 1_000_000 } }
    fn run(&self, case: &SeqCase) -> RunReport {
        let o = run(case, Strictness::Model, false);
        let nontrivial = o.recycled_after_leftovers;
        let mut classes = vec![];
        if o.recycled_after_leftovers { classes.push("leftovers-then-id-reused".into()); }
        if case.ops.len() > 100 { classes.push("long-history".into()); }
        base_report(case, o, nontrivial, classes, None)
    }
    fn rule(&self) -> String {
        "generated: histories (up to 40 / up to 300 operations) over {create stream, drop a stream with or without unconsumed events, send (every entry point), receive one / all, release, cancel_all, length queries} on the 5 non-log Multi kinds and the 5 Uni kinds, MAX_STREAMS 1/2/4/16, every ring counter of the channel -- the stream-id FIFO included -- starting at 0 or anywhere in the last 64 values before the 32-bit wrap (so 'any number of creations and drops' includes the ones across the wrap); creation is only attempted while fewer than MAX_STREAMS streams are live, the Arc kinds are never driven into a full listener queue; \
         oracle: reference model with one window per listener compared after every step: a listener yields exactly the events accepted while it existed, in order, once, and nothing else (in particular nothing left behind by an earlier listener that had the same stream id); Uni: one shared FIFO; running_streams_count() equals the number of live streams after every step; creating never panics; pending_items_count() follows the model; \
         non-trivial: a listener was dropped with unconsumed events and its stream id was handed out again later".into()
    }
}

// ---------------------------------------------------------------------------------------------------------------------
// C16 (sequential part): a rejected send changes nothing

pub struct C16Seq;
impl Property for C16Seq {
    type Case = SeqCase;
    fn part(&self) -> &'static str { "rejected-send-seq" }
    fn decode(&self, u: &mut arbitrary::Unstructured<'_>) -> Option<SeqCase> { decode_seq(u, &SeqGen { kinds: &REJECTING, configs: &ALL_CFGS, max_len: 80, origins: true, weights: [1, 0, 12, 3, 1, 2, 1, 1, 1, 0, 0, 4] }) }
    fn strategy(&self, _tier: Tier) -> BoxedStrategy<SeqCase> {
        //                                                         cr dr sd  rc ra rl rla rs sr cr ca ln
        seq_strategy(SeqGen { kinds: &REJECTING, configs: &ALL_CFGS, max_len: 80, origins: true, weights: [1, 0, 12, 3, 1, 2, 1, 1, 1, 0, 0, 4] })
    }
    fn cases(&self, tier: Tier) -> u32 { match tier { Tier::Quick => 60_000, Tier::Thorough => 600_000 } }
    fn run(&self, case: &SeqCase) -> RunReport {
        let o = run(case, Strictness::Model, true);
        // a rejection followed, later, by an accepted send
        let mut seen_rej = false; let mut retried = false;
        for l in &o.obs { if l.ends_with("=REJECTED") { seen_rej = true; } else if seen_rej && l.ends_with("=ok") && !l.starts_with("send_reserved") { retried = true; } }
        base_report(case, o, retried, vec![], None)
    }
    fn rule(&self) -> String {
        "generated: histories up to 80 operations dominated by sends (every entry point, far beyond BUFFER_SIZE) mixed with single receives, releases, a few reservations and length queries, on the 5 Uni kinds and the 2 ogre_arc Multi kinds (the kinds that reject instead of waiting), counter origin anywhere next to the 32-bit wrap; \
         oracle: reference model compared after every step -- a send is rejected exactly when the model's occupancy (buffered + reserved + [pooled kinds] held) equals BUFFER_SIZE, the handed-back payload / setter is the one passed in (un-invoked), pending_items_count() and what the streams yield are unchanged by a rejection, the send after one receive (+release) is accepted again, and after the completion phase exactly BUFFER_SIZE of BUFFER_SIZE+1 sends are accepted (capacity never shrinks over fill/drain cycles); \
         non-trivial: a rejection followed by an accepted send".into()
    }
}

// ---------------------------------------------------------------------------------------------------------------------
// C05 (sequential part): destruction exactly once over single-threaded histories incl. teardown at any point

pub struct C05Seq;
impl Property for C05Seq {
    type Case = SeqCase;
    fn part(&self) -> &'static str { "payload-life-seq" }
    fn decode(&self, u: &mut arbitrary::Unstructured<'_>) -> Option<SeqCase> { decode_seq(u, &SeqGen { kinds: &NON_LOG, configs: &ALL_CFGS, max_len: 50, origins: false, weights: [2, 1, 8, 5, 1, 4, 1, 1, 1, 0, 0, 0] }) }
    fn strategy(&self, _tier: Tier) -> BoxedStrategy<SeqCase> {
        //                                                       cr dr sd rc ra rl rla rs sr cr ca ln
        seq_strategy(SeqGen { kinds: &NON_LOG, configs: &ALL_CFGS, max_len: 50, origins: false, weights: [2, 1, 8, 5, 1, 4, 1, 1, 1, 0, 0, 0] })
    }
    fn cases(&self, tier: Tier) -> u32 { match tier { Tier::Quick => 50_000, Tier::Thorough => 500_000 } }
    fn run(&self, case: &SeqCase) -> RunReport {
        let k = case.kind.short();
        let o = run(case, Strictness::Model, false);
        let mut extra = None;
        if o.violation.is_none() && o.end == EndState::Completed {
            let drops: BTreeMap<u64, u32> = o.ledger.iter().copied().collect();
            if o.ledger_corrupt > 0 { extra = Some((format!("{k}/destructor-on-garbage"), format!("{} destructor run(s) on something that is not an intact payload; {}", o.ledger_corrupt, o.obs.join(" | ")))); }
            for (v, n) in &drops { if *n > 1 && extra.is_none() { extra = Some((format!("{k}/destroyed-twice"), format!("payload {} destroyed {n} times; {}", payload::show(*v), o.obs.join(" | ")))); } }
            for v in &o.delivered_vals { if drops.get(v).copied().unwrap_or(0) != 1 && !case.kind.is_multi() && extra.is_none() { extra = Some((format!("{k}/never-destroyed"), format!("payload {} was delivered and released but never destroyed; {}", payload::show(*v), o.obs.join(" | ")))); } }
            if case.kind.is_multi() { for v in &o.delivered_vals { if drops.get(v).copied().unwrap_or(0) != 1 && extra.is_none() { extra = Some((format!("{k}/never-destroyed"), format!("payload {} was delivered, every handle released and the channel dropped, but it was never destroyed; {}", payload::show(*v), o.obs.join(" | ")))); } } }
        }
        let nontrivial = o.accepted_vals.len() > o.delivered_vals.len();
        base_report(case, o, nontrivial, vec![], extra)
    }
    fn rule(&self) -> String {
        "generated: single-threaded histories (up to 50 operations) of send / receive / release / reserve+send / create and drop streams on the Uni movable + zero-copy and Multi arc / ogre_arc kinds with a destructor-carrying payload; the completion phase consumes and releases everything still buffered, then the channel is dropped; \
         oracle: reference model after every step (what is yielded, in which order, payload intact while held) + drop ledger after teardown: no payload destroyed twice, no destructor on garbage, every delivered payload destroyed exactly once; \
         non-trivial: at least one accepted event was still buffered when the script ended (consumed by the completion phase after a partial history)".into()
    }
}

// ---------------------------------------------------------------------------------------------------------------------
// C15: behaviour is independent of how many events flowed before (differential: sequence origin k vs origin 0)

fn diff_obs(a: &SeqOutcome, b: &SeqOutcome) -> Option<(usize, String, String)> {
    let n = a.obs.len().max(b.obs.len());
    for i in 0..n {
        let (x, y) = (a.obs.get(i).cloned().unwrap_or_else(|| "<nothing>".into()), b.obs.get(i).cloned().unwrap_or_else(|| "<nothing>".into()));
        if x != y { return Some((i, x, y)); }
    }
    None
}

pub struct C15Channels;
impl Property for C15Channels {
    type Case = SeqCase;
    fn part(&self) -> &'static str { "wrap-diff-channels" }
    fn decode(&self, u: &mut arbitrary::Unstructured<'_>) -> Option<SeqCase> {
        let d = u.arbitrary::<u8>().unwrap_or(0) as u32;
        let mut c = decode_seq(u, &SeqGen { kinds: &NON_LOG, configs: &ALL_CFGS, max_len: 40, origins: false, weights: [2, 1, 8, 4, 2, 2, 1, 3, 3, 2, 1, 3] })?;
        let window = 3 * c.buffer as u32 + c.ops.len() as u32 + 1;
        c.origin = u32::MAX - (d % window);
        Some(c)
    }
    fn strategy(&self, _tier: Tier) -> BoxedStrategy<SeqCase> {
        //                                                                   cr dr sd rc ra rl rla rs sr cr ca ln
        let g = SeqGen { kinds: &NON_LOG, configs: &ALL_CFGS, max_len: 40, origins: false, weights: [2, 1, 8, 4, 2, 2, 1, 3, 3, 2, 1, 3] };
        (seq_strategy(g), 0u32..48).prop_map(|(mut c, d)| {
            // the origin window: [2^32 - 3*BUFFER_SIZE - len, 2^32 - 1], every value reachable
            let window = 3 * c.buffer as u32 + c.ops.len() as u32 + 1;
            c.origin = u32::MAX - (d % window);
            c
        }).boxed()
    }
    fn cases(&self, tier: Tier) -> u32 { match tier { Tier::Quick => 30_000, Tier::Thorough => 600_000 } }
    fn run(&self, case: &SeqCase) -> RunReport {
        let k = case.kind.short();
        let mut base = case.clone();
        base.origin = 0;
        // even-numbered origins: the script is completed (everything consumed); odd ones: the channel is torn down with whatever is still buffered
        let mode = if case.origin % 2 == 0 { Strictness::ObserveOnly } else { Strictness::ObserveOnlyLeftovers };
        let reference = run(&base, mode, false);
        let shifted = run(case, mode, false);
        let mut extra = None;
        if let Some((i, x, y)) = diff_obs(&reference, &shifted) {
            let what = if y.starts_with("ABNORMAL END") { if y.contains("panic") { "panic" } else { "stall" } } else { "different-answer" };
            extra = Some((format!("{k}/{what}"), format!("with the sequence counters starting at {} (2^32-{}) observation #{i} is `{y}`, a fresh channel (origin 0) gives `{x}`; fresh: {} || shifted: {}", case.origin, u32::MAX - case.origin + 1 - 0, reference.obs.join(" | "), shifted.obs.join(" | "))));
        }
        // some counter crossed 2^32 during the script: the origin plus the events that flowed (accepted sends + reservations) passes the wrap
        let flowed = reference.accepted_vals.len() as u32 + reference.reserved_cancelled;
        let crossed = (u32::MAX - case.origin) < flowed;
        let mut o = shifted;
        o.end = EndState::Completed;
        o.violation = None;
        let mut classes = vec![];
        if crossed { classes.push("counter-crossed-2^32".into()); }
        if case.origin % 2 == 1 { classes.push("teardown-with-leftovers".into()); }
        if std::env::var("RMV_BUILD").map(|b| b == "checked").unwrap_or(false) { classes.push("build:overflow-checks-on".into()); } else { classes.push("build:release".into()); }
        base_report(case, o, crossed, classes, extra)
    }
    fn rule(&self) -> String {
        "generated: the operation lists of the sequential engine (send through every entry point, receive, release, reserve / send-reserved / cancel, create / drop streams, cancel_all, length queries; completion phase and teardown with leftovers) on the 10 non-log channel kinds x every configuration, replayed with every ring counter of the channel (event ring, free list, stream-id queue) starting at 0 and at an origin in [2^32 - 3*BUFFER_SIZE - len, 2^32 - 1]; run by the release build and by a build with overflow checks and debug assertions on; \
         oracle (differential): the two observation streams -- accept / reject, yielded values and order, reported lengths and counts, boolean answers, panics and stalls -- are identical; \
         non-trivial: more events flowed than the distance of the origin to 2^32 (a counter wrapped during the script)".into()
    }
}

/// raw containers and the pool allocator, single-threaded scripts
#[derive(Clone, Debug, Serialize, Deserialize)]
pub struct RawCase {
    /// 0..6: the containers of containers.rs (rings, queues); 6, 7: the pool allocator over the atomic / full-sync free list
    pub target: u8,
    pub cap:    u8,
    pub origin: u32,
    /// 0: put / alloc, 1: get / dealloc-oldest, 2: len, 3: dealloc-newest
    pub ops:    Vec<u8>,
}

fn run_raw(case: &RawCase, origin: u32) -> Vec<String> {
    use crate::props::containers::{Kind, make as make_container};
    use crate::props::alloc::{make_pool, FreeList};
    let case = case.clone();
    let r = crate::sched::guarded(100_000, move || {
        let mut obs = vec![];
        if case.target < 6 {
            let kind = [Kind::AtomicRing, Kind::AtomicRingSetter, Kind::FullSyncRing, Kind::FullSyncRingSetter, Kind::AtomicQueue, Kind::FullSyncQueue][case.target as usize];
            reactive_mutiny::verif::set_sequence_origin(origin);
            let c = make_container(kind, case.cap as usize);
            reactive_mutiny::verif::set_sequence_origin(0);
            let mut seq = 0;
            for op in &case.ops {
                match op % 3 {
                    0 => { seq += 1; let v = payload::plain(1, seq); obs.push(format!("put({})={}", payload::show(v), c.put(v))); },
                    1 => obs.push(format!("get={}", c.get().map(payload::show).unwrap_or_else(|| "NOTHING".into()))),
                    _ => obs.push(format!("len={}", c.len())),
                }
            }
            // teardown with leftovers happens here (drop)
            drop(c);
            obs.push("dropped".into());
        } else {
            let pool = make_pool(if case.target == 6 { FreeList::Atomic } else { FreeList::FullSync }, case.cap, origin);
            let mut owned: Vec<(usize, u32)> = vec![];
            for op in &case.ops {
                match op % 4 {
                    0 => { let r = pool.alloc(); obs.push(format!("alloc={}", r.map(|x| format!("#{}", x.1)).unwrap_or_else(|| "EXHAUSTED".into()))); if let Some(x) = r { owned.push(x); } },
                    1 => if !owned.is_empty() { let (_, id) = owned.remove(0); pool.dealloc_id(id); obs.push(format!("dealloc(#{id})")); },
                    3 => if let Some((addr, id)) = owned.pop() { pool.dealloc_ref(addr); obs.push(format!("dealloc_ref(#{id})")); },
                    _ => obs.push(format!("owned={}", owned.len())),
                }
            }
            std::mem::forget(pool);
        }
        obs
    });
    match r { Ok(o) => o, Err(e) => vec![format!("ABNORMAL END: {}", match e { EndState::Panicked { msg, .. } => format!("panic: {msg}"), EndState::Stall { .. } => "stall".into(), other => format!("{:?}", other) })] }
}

pub struct C15Raw;
impl Property for C15Raw {
    type Case = RawCase;
    fn part(&self) -> &'static str { "wrap-diff-raw" }
    fn strategy(&self, _tier: Tier) -> BoxedStrategy<RawCase> {
        (0u8..8, any::<u16>(), vec(0u8..12, 1..60), 0u32..64).prop_map(|(target, ci, ops, d)| {
            let cap = pick(&[2u8, 4, 8], ci);
            RawCase { target, cap, origin: u32::MAX - (d % (3 * cap as u32 + ops.len() as u32 + 1)), ops }
        }).boxed()
    }
    fn cases(&self, tier: Tier) -> u32 { match tier { Tier::Quick => 30_000, Tier::Thorough => 600_000 } }
    fn run(&self, case: &RawCase) -> RunReport {
        // the pool payload has a destructor that reports to the current ledger: none is needed here
        payload::set_current_ledger(None);
        let reference = run_raw(case, 0);
        let shifted = run_raw(case, case.origin);
        let name = ["AtomicRing", "AtomicRingSetter", "FullSyncRing", "FullSyncRingSetter", "AtomicQueue", "FullSyncQueue", "PoolAtomic", "PoolFullSync"][case.target as usize % 8];
        let mut verdict = Verdict::Pass;
        let n = reference.len().max(shifted.len());
        for i in 0..n {
            let (x, y) = (reference.get(i).cloned().unwrap_or_else(|| "<nothing>".into()), shifted.get(i).cloned().unwrap_or_else(|| "<nothing>".into()));
            if x != y {
                let what = if y.starts_with("ABNORMAL END") { if y.contains("panic") { "panic" } else { "stall" } } else { "different-answer" };
                verdict = Verdict::Violation { signature: format!("{name}/{what}"), detail: format!("with the counters starting at {} observation #{i} is `{y}`, from 0 it is `{x}`; fresh: {} || shifted: {}", case.origin, reference.join(" | "), shifted.join(" | ")) };
                break;
            }
        }
        let flowed = reference.iter().filter(|l| l.ends_with("=true") || l.starts_with("alloc=#") || l.starts_with("dealloc")).count() as u32;
        let crossed = (u32::MAX - case.origin) < flowed;
        let mut classes = vec![format!("target:{name}"), format!("cap:{}", case.cap)];
        if crossed { classes.push("counter-crossed-2^32".into()); }
        if std::env::var("RMV_BUILD").map(|b| b == "checked").unwrap_or(false) { classes.push("build:overflow-checks-on".into()); } else { classes.push("build:release".into()); }
        let fp = { use std::hash::{Hash, Hasher}; let mut h = std::collections::hash_map::DefaultHasher::new(); format!("{:?}", case).hash(&mut h); h.finish() };
        RunReport { verdict, nontrivial: crossed, classes, fingerprint: fp, trace: None, summary: shifted.iter().take(40).cloned().collect::<Vec<_>>().join(" | ") }
    }
    fn rule(&self) -> String {
        "generated: single-threaded scripts (1..59 operations) of put / get / len on the two raw rings (both publishing APIs) and the two non-blocking queues, and of alloc / dealloc (by id, by reference) on the pool allocator over both free lists, capacity 2/4/8, ending with teardown with leftovers; replayed with the counters starting at 0 and at an origin in [2^32 - 3*cap - len, 2^32 - 1]; both builds; \
         oracle (differential): identical observation streams (answers, values, lengths, panics, stalls); \
         non-trivial: a counter wrapped during the script".into()
    }
}
