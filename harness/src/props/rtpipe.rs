//! E3, bare channel API with user-built pipelines (C06, channel level): streams obtained from `create_stream*()` are consumed by pipelines the
//! *caller* builds from `futures` combinators (as applications that do not go through `Uni` / `Multi` do), and the channel is ended with
//! `gracefully_end_all_streams(Duration::ZERO)`. The property's clause "or gracefully ending all streams of a channel ... returns only after every
//! event accepted before the call has been ... fully processed by the pipeline, and after every stream has ended" is decided at the instant the call
//! returns: the channel can only observe a pipeline through its stream (yielded / answered end-of-stream / dropped), so what is exercised here is
//! that it waits for the streams to be *dropped* -- which pipelines do once they are done -- and not merely for them to answer end-of-stream.

use crate::chan::ChanKind;
use crate::driver::{pick, Property, RunReport, Tier, Verdict};
use crate::props::rt::*;
use crate::props::rtchan::Ev;
use futures::stream::{Stream, StreamExt};
use proptest::collection::vec;
use proptest::prelude::*;
use reactive_mutiny::prelude::advanced::*;
use serde::{Deserialize, Serialize};
use std::collections::BTreeSet;
use std::future::{ready, Future};
use std::pin::Pin;
use std::sync::atomic::{AtomicBool, Ordering::SeqCst};
use std::sync::Arc;
use std::time::Duration;

#[derive(Clone, Copy, Debug, PartialEq, Eq, Serialize, Deserialize)]
pub enum Shape {
    /// `while let Some(e) = stream.next().await { process(e).await }`
    WhileLet,
    /// `stream.then(process).for_each(|_| ready(()))`
    Then,
    /// `stream.for_each(process)`
    ForEach,
    /// `stream.map(process).buffer_unordered(n).for_each(|_| ready(()))`: up to n items in flight, the (fused) source is kept until the pipeline is done
    BufferUnordered(u8),
    /// `stream.map(process).buffered(n).for_each(|_| ready(()))`
    Buffered(u8),
    /// `stream.for_each_concurrent(n, process)`: drops the source as soon as it ends, with up to n items still in flight
    ForEachConcurrent(u8),
}

impl Shape {
    pub fn name(self) -> &'static str { match self { Shape::WhileLet => "while-let", Shape::Then => "then", Shape::ForEach => "for_each", Shape::BufferUnordered(_) => "buffer_unordered", Shape::Buffered(_) => "buffered", Shape::ForEachConcurrent(_) => "for_each_concurrent" } }
    pub fn width(self) -> u8 { match self { Shape::BufferUnordered(n) | Shape::Buffered(n) | Shape::ForEachConcurrent(n) => n, _ => 1 } }
}

#[derive(Clone, Debug, Serialize, Deserialize)]
pub struct PipeCase {
    pub kind:    ChanKind,
    /// one pipeline per stream (Uni: streams sharing the events; Multi: listeners)
    pub shapes:  Vec<Shape>,
    pub rt:      Rt,
    pub items:   Vec<Beh>,
    pub gate_after_close: bool,
    pub release_after: u8,
    pub senders: u8,
}

pub const PIPE_B: usize = 8;
pub const PIPE_M: usize = 4;

fn sanitize(mut c: PipeCase) -> PipeCase {
    c.shapes.truncate(3);
    if c.shapes.is_empty() { c.shapes.push(Shape::WhileLet); }
    if c.kind.is_arc() { c.items.truncate(PIPE_B - 1); }            // (the Arc kinds wait -- blocking the thread -- when a listener's queue is full)
    else { c.items.truncate(2 * PIPE_B); }
    c
}

pub fn pipe_behs(case: &PipeCase) -> Vec<Beh> {
    let n = case.items.len();
    case.items.iter().enumerate().map(|(i, beh)| {
        let mut x = match *beh { Beh::Ok | Beh::OkYields(_) | Beh::OkGated => *beh, _ => Beh::Ok };
        if x == Beh::OkGated && case.rt.paused() && !case.gate_after_close { x = Beh::OkYields(1); }
        // an item waiting for a gate that opens only after the end request blocks its pipeline: everything behind it must fit into the buffer, or the sends never finish
        if x == Beh::OkGated && case.gate_after_close && i + PIPE_B / 2 < n { x = Beh::OkYields(1); }
        x
    }).collect()
}

async fn run_pipeline<D: Ev, S: Stream<Item = D> + Send + Unpin + 'static>(stream: S, shape: Shape, w: Arc<World>, e: usize) {
    let process = move |d: D| { let w = Arc::clone(&w); async move { let _ = item_future(w, e, d.v()).await; drop(d); } };
    match shape {
        Shape::WhileLet => { let mut stream = stream; while let Some(d) = stream.next().await { process(d).await; } },
        Shape::Then => stream.then(process).for_each(|_| ready(())).await,
        Shape::ForEach => stream.for_each(process).await,
        Shape::BufferUnordered(n) => stream.map(process).buffer_unordered(n.max(1) as usize).for_each(|_| ready(())).await,
        Shape::Buffered(n) => stream.map(process).buffered(n.max(1) as usize).for_each(|_| ready(())).await,
        Shape::ForEachConcurrent(n) => stream.for_each_concurrent(n.max(1) as usize, process).await,
    }
}

pub struct PipeOutcome {
    pub world:    Arc<World>,
    pub behs:     Vec<Beh>,
    pub accepted: Vec<u64>,
    pub finished_at_return: Vec<Vec<u64>>,
    pub started_at_return:  Vec<Vec<u64>>,
    pub running_at_return:  u32,
    pub open_at_return:     bool,
    pub pending_at_return:  u32,
    pub gave_up_sending:    bool,
}

async fn send_all<S: Fn(u64) -> bool + Send + Sync + 'static>(send: Arc<S>, n: u64, senders: u8) -> bool {
    let senders = senders.max(1) as u64;
    let mut handles = vec![];
    for s in 0..senders {
        let send = Arc::clone(&send);
        handles.push(tokio::spawn(async move {
            let mut v = s + 1;
            while v <= n {
                let mut tries = 0u32;
                while !send(v) { tries += 1; if tries > 200_000 { return false; } tokio::task::yield_now().await; }
                v += senders;
            }
            true
        }));
    }
    let mut ok = true;
    for h in handles { ok &= h.await.unwrap_or(false); }
    ok
}

fn spawn_releaser(world: &Arc<World>, after_close: bool, close_called: &Arc<tokio::sync::Notify>, flag: &Arc<AtomicBool>, yields: u8) {
    let (w, n, f) = (Arc::clone(world), Arc::clone(close_called), Arc::clone(flag));
    tokio::spawn(async move {
        if after_close {
            loop { let notified = n.notified(); if f.load(SeqCst) { break; } notified.await; }
            tokio::time::sleep(Duration::from_millis(yields as u64)).await;
        }
        for _ in 0..yields { tokio::task::yield_now().await; }
        w.open_gate();
    });
}

macro_rules! pipe_main_body {
    ($case:ident, $chan:ident, $create:expr, $send:expr) => {{
        let behs = pipe_behs(&$case);
        let n_streams = $case.shapes.len();
        let world = World::new(behs.clone(), n_streams);
        let n = behs.len() as u64;
        let mut tasks = vec![];
        for (s, shape) in $case.shapes.iter().enumerate() {
            let (stream, _id) = $create;
            tasks.push(tokio::spawn(run_pipeline(stream, *shape, Arc::clone(&world), s)));
        }
        let close_called = Arc::new(tokio::sync::Notify::new());
        let close_flag = Arc::new(AtomicBool::new(false));
        spawn_releaser(&world, $case.gate_after_close, &close_called, &close_flag, $case.release_after);
        let c2 = Arc::clone(&$chan);
        let senders = if $case.gate_after_close && behs.contains(&Beh::OkGated) { 1 } else { $case.senders };
        let sent = send_all(Arc::new(move |v: u64| { let c = &c2; $send(c, v) }), n, senders).await;
        let accepted: Vec<u64> = if sent { (1..=n).collect() } else { vec![] };
        close_flag.store(true, SeqCst);
        close_called.notify_waiters();
        let _ended = $chan.gracefully_end_all_streams(Duration::ZERO).await;
        let finished_at_return = (0..n_streams).map(|e| world.finished_of(e)).collect();
        let started_at_return = (0..n_streams).map(|e| world.started_of(e)).collect();
        let (running_at_return, open_at_return, pending_at_return) = ($chan.running_streams_count(), $chan.is_channel_open(), $chan.pending_items_count());
        world.open_gate();
        for t in tasks { let _ = t.await; }
        PipeOutcome { world, behs, accepted, finished_at_return, started_at_return, running_at_return, open_at_return, pending_at_return, gave_up_sending: !sent }
    }}
}

async fn pipe_main_uni<C, D>(case: PipeCase) -> PipeOutcome
where C: FullDuplexUniChannel<ItemType = u64, DerivedItemType = D> + Send + Sync + 'static, D: Ev {
    let chan = C::new("rmv");
    pipe_main_body!(case, chan, chan.create_stream(), |c: &Arc<C>, v: u64| c.send(v).is_ok())
}

async fn pipe_main_multi<C, D>(case: PipeCase) -> PipeOutcome
where C: FullDuplexMultiChannel<ItemType = u64, DerivedItemType = D> + Send + Sync + 'static, D: Ev {
    static SEQ: std::sync::atomic::AtomicU64 = std::sync::atomic::AtomicU64::new(0);
    let name = format!("rmvp-{}-{}", std::process::id(), SEQ.fetch_add(1, SeqCst));
    let chan = C::new(name.clone());
    let out = pipe_main_body!(case, chan, chan.create_stream_for_new_events(), |c: &Arc<C>, v: u64| c.send(v).is_ok());
    drop(chan);
    if case.kind.is_mmap() { let _ = std::fs::remove_file(format!("/tmp/{name}.mmap")); }
    out
}

type BoxPipe = Pin<Box<dyn Future<Output = PipeOutcome>>>;

fn dispatch(case: PipeCase) -> BoxPipe {
    match case.kind {
        ChanKind::UniMoveAtomic     => Box::pin(pipe_main_uni::<ChannelUniMoveAtomic<u64, PIPE_B, PIPE_M>, _>(case)),
        ChanKind::UniMoveFullSync   => Box::pin(pipe_main_uni::<ChannelUniMoveFullSync<u64, PIPE_B, PIPE_M>, _>(case)),
        ChanKind::UniMoveCrossbeam  => Box::pin(pipe_main_uni::<ChannelUniMoveCrossbeam<u64, PIPE_B, PIPE_M>, _>(case)),
        ChanKind::UniZcAtomic       => Box::pin(pipe_main_uni::<ChannelUniZeroCopyAtomic<u64, PIPE_B, PIPE_M>, _>(case)),
        ChanKind::UniZcFullSync     => Box::pin(pipe_main_uni::<ChannelUniZeroCopyFullSync<u64, PIPE_B, PIPE_M>, _>(case)),
        ChanKind::MultiArcAtomic    => Box::pin(pipe_main_multi::<ChannelMultiArcAtomic<u64, PIPE_B, PIPE_M>, _>(case)),
        ChanKind::MultiArcFullSync  => Box::pin(pipe_main_multi::<ChannelMultiArcFullSync<u64, PIPE_B, PIPE_M>, _>(case)),
        ChanKind::MultiArcCrossbeam => Box::pin(pipe_main_multi::<ChannelMultiArcCrossbeam<u64, PIPE_B, PIPE_M>, _>(case)),
        ChanKind::MultiOgreAtomic   => Box::pin(pipe_main_multi::<ChannelMultiOgreArcAtomic<u64, PIPE_B, PIPE_M>, _>(case)),
        ChanKind::MultiOgreFullSync => Box::pin(pipe_main_multi::<ChannelMultiOgreArcFullSync<u64, PIPE_B, PIPE_M>, _>(case)),
        ChanKind::MultiMmap         => Box::pin(pipe_main_multi::<ChannelMultiMmapLog<u64, PIPE_M>, _>(case)),
    }
}

pub fn judge(case: &PipeCase, o: &PipeOutcome) -> Option<(String, String)> {
    let uni = case.kind.is_uni();
    let k = format!("chan-end-all/{}", case.kind.short());
    let all: BTreeSet<u64> = o.accepted.iter().copied().collect();
    let n_streams = case.shapes.len();
    // at the instant gracefully_end_all_streams() returned
    let groups: Vec<(String, BTreeSet<u64>, BTreeSet<u64>, Vec<Shape>)> = if uni {
        vec![("the streams".to_string(), o.finished_at_return.iter().flatten().copied().collect(), o.started_at_return.iter().flatten().copied().collect(), case.shapes.clone())]
    } else {
        (0..n_streams).map(|e| (format!("listener {e}"), o.finished_at_return[e].iter().copied().collect(), o.started_at_return[e].iter().copied().collect(), vec![case.shapes[e]])).collect()
    };
    for (who, done, started, shapes) in &groups {
        let unprocessed: Vec<u64> = all.iter().copied().filter(|v| !done.contains(v)).collect();
        if unprocessed.is_empty() { continue; }
        let in_flight_only = unprocessed.iter().all(|v| started.contains(v));
        // what the channel cannot see: `for_each_concurrent` drops the source stream the moment it ends, with item futures still running
        let fec = shapes.iter().any(|s| matches!(s, Shape::ForEachConcurrent(n) if *n > 1));
        let shape = if shapes.len() == 1 { shapes[0].name().to_string() } else { let mut n: Vec<&str> = shapes.iter().map(|s| s.name()).collect(); n.sort(); n.dedup(); n.join("+") };
        let sig = if in_flight_only && fec { "chan-end-all/for_each_concurrent/limit>1/item-futures-still-in-flight-when-the-call-returned".to_string() }
                  else { format!("{k}/{shape}/unprocessed-when-the-call-returned/{}", if in_flight_only { "in-flight" } else { "not-even-started" }) };
        return Some((sig, format!("gracefully_end_all_streams(Duration::ZERO) returned while accepted events {unprocessed:?} had not been fully processed by {who} (pipelines {:?}; started by then: {:?})",
                                  shapes, unprocessed.iter().filter(|v| started.contains(v)).collect::<Vec<_>>())));
    }
    if o.running_at_return != 0 { return Some((format!("{k}/streams-running-after-the-call"), format!("running_streams_count() == {} right after gracefully_end_all_streams() returned", o.running_at_return))); }
    if o.open_at_return { return Some((format!("{k}/open-after-the-call"), "is_channel_open() right after gracefully_end_all_streams() returned".into())); }
    // once every pipeline has terminated: nothing discarded, nothing twice
    for e in 0..(if uni { 1 } else { n_streams }) {
        let fin: Vec<u64> = if uni { (0..n_streams).flat_map(|x| o.world.finished_of(x)).collect() } else { o.world.finished_of(e) };
        if multiset(&fin) != multiset(&o.accepted) {
            let lost: Vec<u64> = o.accepted.iter().copied().filter(|v| !fin.contains(v)).collect();
            return Some(if !lost.is_empty() { (format!("{k}/accepted-events-discarded"), format!("accepted events {lost:?} were never processed{}, although every pipeline ran until its stream ended", if uni { String::new() } else { format!(" by listener {e}") })) }
                        else { (format!("{k}/processed-twice"), format!("processed {fin:?}")) });
        }
    }
    None
}

pub struct C06Pipe;
impl Property for C06Pipe {
    type Case = PipeCase;
    fn attempts(&self, case: &PipeCase) -> u32 { if case.rt.paused() { 1 } else { 25 } }
    fn part(&self) -> &'static str { "chan-end-all-pipelines" }
    fn strategy(&self, _tier: Tier) -> BoxedStrategy<PipeCase> {
        let beh = prop_oneof![4 => Just(Beh::Ok), 3 => (1u8..4).prop_map(Beh::OkYields), 3 => Just(Beh::OkGated)];
        let shape = prop_oneof![2 => Just(Shape::WhileLet), 1 => Just(Shape::Then), 1 => Just(Shape::ForEach), 3 => (1u8..=4).prop_map(Shape::BufferUnordered), 2 => (1u8..=4).prop_map(Shape::Buffered), 1 => (1u8..=3).prop_map(Shape::ForEachConcurrent)];
        (any::<u16>(), vec(shape, 1..=3), rt_strategy(), vec(beh, 0..16), prop_oneof![3 => Just(true), 1 => Just(false)], 0u8..10, 1u8..=2)
            .prop_map(|(k, shapes, rt, items, gate_after_close, release_after, senders)| sanitize(PipeCase { kind: pick(&crate::chan::ALL_KINDS, k), shapes, rt, items, gate_after_close, release_after, senders }))
            .boxed()
    }
    fn cases(&self, tier: Tier) -> u32 { match tier { Tier::Quick => 8_000, Tier::Thorough => 80_000 } }
    fn run(&self, case: &PipeCase) -> RunReport {
        let case = &sanitize(case.clone());
        let c2 = case.clone();
        let end = run_case(case.rt, move || dispatch(c2));
        let behs = pipe_behs(case);
        let mut classes = vec![format!("kind:{}", case.kind.short()), format!("streams:{}", case.shapes.len()), format!("runtime:{}", case.rt.name())];
        for s in &case.shapes { let c = format!("pipeline:{}", s.name()); if !classes.contains(&c) { classes.push(c); } }
        let busy = case.gate_after_close && behs.contains(&Beh::OkGated);
        if busy { classes.push("work-outstanding-when-the-end-was-requested".into()); }
        let fingerprint = { use std::hash::{Hash, Hasher}; let mut h = std::collections::hash_map::DefaultHasher::new(); format!("{case:?}").hash(&mut h); h.finish() };
        let mut nontrivial = false;
        let (verdict, summary) = match end {
            CaseEnd::Done(o) if o.gave_up_sending => (Verdict::Inconclusive("sends-never-accepted".into()), "gave up sending".into()),
            CaseEnd::Done(o) => {
                let in_flight_at_return = o.started_at_return.iter().map(|s| s.len()).sum::<usize>().saturating_sub(o.finished_at_return.iter().map(|s| s.len()).sum::<usize>());
                let summary = format!("{} items {:?} through pipelines {:?}; processed when the call returned: {:?} ({} in flight, running={}, open={}, pending={}); finally: {:?}", behs.len(), behs.iter().map(|b| b.short()).collect::<Vec<_>>(), case.shapes,
                                      o.finished_at_return, in_flight_at_return, o.running_at_return, o.open_at_return, o.pending_at_return, (0..case.shapes.len()).map(|e| o.world.finished_of(e)).collect::<Vec<_>>());
                nontrivial = busy || (!behs.is_empty() && case.rt != Rt::CurrentPaused);
                if busy && case.shapes.iter().any(|s| s.width() > 1) { classes.push("several-items-in-flight-in-one-pipeline".into()); }
                (match judge(case, &o) { None => Verdict::Pass, Some((signature, detail)) => Verdict::Violation { signature, detail: format!("{detail}; {summary}") } }, summary)
            },
            CaseEnd::Hang { decided } => (Verdict::Inconclusive(if decided { "no-progress(paused-clock)".into() } else { "watchdog".into() }), "did not finish".into()),
            CaseEnd::Panicked(p) => (Verdict::Violation { signature: format!("chan-end-all/{}/panic", case.kind.short()), detail: format!("a task panicked: {p:?}") }, format!("panic {p:?}")),
        };
        if matches!(verdict, Verdict::Violation { .. }) { nontrivial = true; }
        RunReport { verdict, nontrivial, classes, fingerprint, trace: None, summary }
    }
    fn rule(&self) -> String {
        "generated: the bare channel API -- all 11 channel kinds (BUFFER_SIZE 8, MAX_STREAMS 4) x 1..3 streams (Uni) / listeners (Multi), each consumed by a caller-built pipeline {while-let loop | then | for_each | map+buffer_unordered(1..4) | map+buffered(1..4) | for_each_concurrent(1..3)} spawned as a task x runtime {current_thread paused clock, multi_thread(2), multi_thread(4)} x 0..16 events over {ok, ok after k yields, ok once a gate opens} sent by 1..2 tasks with retry-on-full x the gate opening before the end request or only after gracefully_end_all_streams(Duration::ZERO) was called (by another task, 0..9 ms / yields into it); \
         oracle: at the instant gracefully_end_all_streams() returns every accepted event has been fully processed (the pipeline records the END of each item's processing; Uni: by some stream, Multi: by every listener), running_streams_count()==0, !is_channel_open(); once every pipeline task has terminated: processed == accepted as multisets; \
         known finding (KNOWN_FINDINGS.txt, R6b): for_each_concurrent(n>1) drops the source stream the moment it ends, with item futures still in flight -- nothing the channel could observe; \
         non-trivial: work was outstanding when the end was requested (an item waits for a gate that opens only afterwards) or the runtime is multi-threaded".into()
    }
}

// ---------------------------------------------------------------------------------------------------------------------
// C20, the "length queries, close" clause: while a send_with_async stays suspended, pending_items_count() / flush() / gracefully_end_all_streams()
// on the same channel still complete. Paused-clock current-thread runtime: the suspended send is a future polled once and then kept; the call under
// test runs under a 30 s (virtual) timeout -- under the paused clock nothing but the library's own 1 ms retry timers can run, so "did not return
// within 30 virtual seconds" is decided, not a matter of machine load.

#[derive(Clone, Copy, Debug, PartialEq, Eq, Serialize, Deserialize)]
pub enum CloseOp { Len, Flush, EndAll }

#[derive(Clone, Debug, Serialize, Deserialize)]
pub struct SuspCloseCase {
    pub kind:   ChanKind,
    pub op:     CloseOp,
    /// events sent (and consumed by the stream's task) before the suspended send starts
    pub before: u8,
    /// suspended sends in flight
    pub suspended: u8,
}

pub struct SuspCloseOutcome { pub returned: bool, pub answer: u32, pub processed: usize, pub sent: usize, pub first_poll_pending: bool }

macro_rules! susp_body {
    ($case:ident, $chan:ident, $create:expr) => {{
        let world = World::new(vec![], 1);
        let (stream, _id) = $create;
        let task = tokio::spawn(run_pipeline(stream, Shape::WhileLet, Arc::clone(&world), 0));
        let mut sent = 0usize;
        for v in 1..=$case.before as u64 { let mut tries = 0; while !$chan.send(v).is_ok() { tries += 1; if tries > 1000 { break; } tokio::task::yield_now().await; } sent += 1; }
        for _ in 0..8 { tokio::task::yield_now().await; }
        // the suspended sends: polled once, then kept
        let ch: &'static _ = unsafe { &*Arc::as_ptr(&$chan) };
        let mut futs = vec![];
        let mut first_poll_pending = true;
        for _ in 0..$case.suspended.max(1) {
            let mut fut = Box::pin(ch.send_with_async(|slot: &'static mut u64| async move { std::future::pending::<()>().await; *slot = 99; slot }));
            if futures::poll!(fut.as_mut()).is_ready() { first_poll_pending = false; }
            futs.push(fut);
        }
        let call = async {
            match $case.op {
                CloseOp::Len => $chan.pending_items_count(),
                CloseOp::Flush => $chan.flush(Duration::ZERO).await,
                CloseOp::EndAll => $chan.gracefully_end_all_streams(Duration::ZERO).await,
            }
        };
        let res = tokio::time::timeout(Duration::from_secs(30), call).await;
        let processed = world.finished_of(0).len();
        task.abort();
        // (a send dropped while suspended may leave ring state behind: no teardown)
        std::mem::forget(futs);
        std::mem::forget($chan);
        SuspCloseOutcome { returned: res.is_ok(), answer: res.unwrap_or(u32::MAX), processed, sent, first_poll_pending }
    }}
}

async fn susp_main_uni<C, D>(case: SuspCloseCase) -> SuspCloseOutcome
where C: FullDuplexUniChannel<ItemType = u64, DerivedItemType = D> + Send + Sync + 'static, D: Ev {
    let chan = C::new("rmv");
    susp_body!(case, chan, chan.create_stream())
}
async fn susp_main_multi<C, D>(case: SuspCloseCase) -> SuspCloseOutcome
where C: FullDuplexMultiChannel<ItemType = u64, DerivedItemType = D> + Send + Sync + 'static, D: Ev {
    let chan = C::new("rmv");
    susp_body!(case, chan, chan.create_stream_for_new_events())
}

type BoxSusp = Pin<Box<dyn Future<Output = SuspCloseOutcome>>>;
fn susp_dispatch(case: SuspCloseCase) -> BoxSusp {
    match case.kind {
        ChanKind::UniMoveAtomic     => Box::pin(susp_main_uni::<ChannelUniMoveAtomic<u64, PIPE_B, PIPE_M>, _>(case)),
        ChanKind::UniMoveFullSync   => Box::pin(susp_main_uni::<ChannelUniMoveFullSync<u64, PIPE_B, PIPE_M>, _>(case)),
        ChanKind::UniMoveCrossbeam  => Box::pin(susp_main_uni::<ChannelUniMoveCrossbeam<u64, PIPE_B, PIPE_M>, _>(case)),
        ChanKind::UniZcAtomic       => Box::pin(susp_main_uni::<ChannelUniZeroCopyAtomic<u64, PIPE_B, PIPE_M>, _>(case)),
        ChanKind::UniZcFullSync     => Box::pin(susp_main_uni::<ChannelUniZeroCopyFullSync<u64, PIPE_B, PIPE_M>, _>(case)),
        ChanKind::MultiArcAtomic    => Box::pin(susp_main_multi::<ChannelMultiArcAtomic<u64, PIPE_B, PIPE_M>, _>(case)),
        ChanKind::MultiArcFullSync  => Box::pin(susp_main_multi::<ChannelMultiArcFullSync<u64, PIPE_B, PIPE_M>, _>(case)),
        ChanKind::MultiArcCrossbeam => Box::pin(susp_main_multi::<ChannelMultiArcCrossbeam<u64, PIPE_B, PIPE_M>, _>(case)),
        ChanKind::MultiOgreAtomic   => Box::pin(susp_main_multi::<ChannelMultiOgreArcAtomic<u64, PIPE_B, PIPE_M>, _>(case)),
        ChanKind::MultiOgreFullSync => Box::pin(susp_main_multi::<ChannelMultiOgreArcFullSync<u64, PIPE_B, PIPE_M>, _>(case)),
        ChanKind::MultiMmap         => panic!("the mmap log's send_with_async is todo!() upstream"),
    }
}

pub struct C20Close;
// (not the movable full-sync Uni kind: its suspended send keeps the ring's spin lock, the consumer's poll spins on it -- known finding R9, keyed in the controlled part)
static ASYNC_KINDS: [ChanKind; 9] = [ChanKind::UniMoveAtomic, ChanKind::UniMoveCrossbeam, ChanKind::UniZcAtomic, ChanKind::UniZcFullSync,
                                      ChanKind::MultiArcAtomic, ChanKind::MultiArcFullSync, ChanKind::MultiArcCrossbeam, ChanKind::MultiOgreAtomic, ChanKind::MultiOgreFullSync];
impl Property for C20Close {
    type Case = SuspCloseCase;
    fn part(&self) -> &'static str { "suspended-async-close" }
    fn strategy(&self, _tier: Tier) -> BoxedStrategy<SuspCloseCase> {
        (any::<u16>(), prop_oneof![1 => Just(CloseOp::Len), 2 => Just(CloseOp::Flush), 3 => Just(CloseOp::EndAll)], 0u8..4, 1u8..=2)
            .prop_map(|(k, op, before, suspended)| {
                let kind = pick(&ASYNC_KINDS, k);
                // the movable full-sync Uni kind keeps its ring's spin lock across the await (known finding R9): a second send_with_async would spin inside our own poll
                let suspended = if kind == ChanKind::UniMoveFullSync || kind == ChanKind::UniMoveAtomic { 1 } else { suspended };
                SuspCloseCase { kind, op, before, suspended }
            }).boxed()
    }
    fn cases(&self, tier: Tier) -> u32 { match tier { Tier::Quick => 1_500, Tier::Thorough => 12_000 } }
    fn run(&self, case: &SuspCloseCase) -> RunReport {
        let c2 = case.clone();
        let end = run_case(Rt::CurrentPaused, move || susp_dispatch(c2));
        let classes = vec![format!("kind:{}", case.kind.short()), format!("op:{:?}", case.op), format!("suspended-sends:{}", case.suspended), format!("events-before:{}", case.before)];
        let fingerprint = { use std::hash::{Hash, Hasher}; let mut h = std::collections::hash_map::DefaultHasher::new(); format!("{case:?}").hash(&mut h); h.finish() };
        let k = format!("{}/while-suspended/{:?}", case.kind.short(), case.op);
        let (verdict, summary) = match end {
            CaseEnd::Done(o) => {
                let summary = format!("{} event(s) sent and {} processed beforehand; {} send_with_async suspended (first poll pending: {}); {:?} returned: {} (answer {})", o.sent, o.processed, case.suspended, o.first_poll_pending, case.op, o.returned, o.answer);
                let v = if !o.first_poll_pending { None }       // (the setter did not suspend: nothing to decide)
                        else if !o.returned { Some((format!("{k}/never-returns"), format!("with a send_with_async suspended, {:?} did not return within 30 virtual seconds (paused clock: only the library's own retry timers were running)", case.op))) }
                        else if o.processed != o.sent { Some((format!("{k}/events-accepted-meanwhile-undelivered"), format!("{} events were accepted before the call but only {} had been processed when {:?} returned", o.sent, o.processed, case.op))) }
                        else { None };
                (match v { None => Verdict::Pass, Some((signature, detail)) => Verdict::Violation { signature, detail: format!("{detail}; {summary}") } }, summary)
            },
            // (the known finding R9 kinds may spin inside a poll: the paused-clock runtime then makes no progress at all)
            CaseEnd::Hang { decided } => (Verdict::Inconclusive(if decided { "no-progress(paused-clock)".into() } else { "watchdog".into() }), "did not finish".into()),
            CaseEnd::Panicked(p) => (Verdict::Violation { signature: format!("{k}/panic"), detail: format!("a task panicked: {p:?}") }, format!("panic {p:?}")),
        };
        RunReport { verdict, nontrivial: true, classes, fingerprint, trace: None, summary }
    }
    fn rule(&self) -> String {
        "generated: 9 of the 10 channel kinds implementing send_with_async (not the movable full-sync Uni kind, whose suspended send keeps the ring's spin lock so that the consumer's poll spins: known finding R9, decided in the controlled part; BUFFER_SIZE 8, MAX_STREAMS 4) x 0..3 events sent and consumed beforehand x 1..2 send_with_async calls whose setter never resumes (polled once, then kept; 1 on the movable Uni kinds -- known finding R9) x the operation issued meanwhile {pending_items_count | flush(Duration::ZERO) | gracefully_end_all_streams(Duration::ZERO)} on a paused-clock current-thread runtime with one stream consumed by a while-let task; \
         oracle: the operation returns within 30 virtual seconds (decided: under the paused clock only the library's own retry timers run) and everything accepted before it had been processed; \
         non-trivial: every case".into()
    }
}
