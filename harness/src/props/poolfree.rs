//! E5 for the bounded pool allocator (C13): free-running alloc / dealloc on real OS threads (no scheduler), both free-list implementations.
//!
//! Every call / return is stamped from one global atomic counter (`A` precedes `B` only if `A.ret < B.call`); the oracles are sound whatever the
//! OS does: a slot is *definitely owned* from the return of its allocation to the call of its deallocation, *possibly outstanding* from the call of
//! its allocation to the return of its deallocation. Two definite ownerships of one id must never overlap; an allocation may fail only if POOL_SIZE
//! slots were possibly outstanding at some instant of the call; the payload written at allocation must still be there right before the
//! deallocation; id <-> reference conversion round-trips onto the pool; every value is destroyed exactly once; afterwards exactly POOL_SIZE
//! allocations succeed.

use crate::driver::{freeze_case, pick, Property, RunReport, Tier, Verdict};
use crate::payload::{self, Ledger, Tracked};
use crate::props::alloc::{make_pool, FreeList, Pool};
use proptest::prelude::*;
use serde::{Deserialize, Serialize};
use std::collections::HashMap;
use std::sync::atomic::{AtomicU64, AtomicUsize, Ordering::SeqCst};
use std::sync::Arc;

#[derive(Clone, Debug, Serialize, Deserialize)]
pub struct PoolFreeCase {
    pub free_list: FreeList,
    pub size:      u8,
    pub origin:    u32,
    pub threads:   u8,
    pub ops:       u32,
    /// slots a thread keeps at most
    pub hold_max:  u8,
    pub seed:      u64,
    pub rounds:    u16,
    #[serde(default)]
    pub recorded:  Option<(String, String)>,
}

struct Sem { m: std::sync::Mutex<usize>, cv: std::sync::Condvar }
static SEM: Sem = Sem { m: std::sync::Mutex::new(0), cv: std::sync::Condvar::new() };
const SLOTS: usize = 3;
struct Permit;
fn acquire() -> Permit { let mut g = SEM.m.lock().unwrap(); while *g >= SLOTS { g = SEM.cv.wait(g).unwrap(); } *g += 1; Permit }
impl Drop for Permit { fn drop(&mut self) { *SEM.m.lock().unwrap() -= 1; SEM.cv.notify_one(); } }

fn xorshift(s: &mut u64) -> u64 { let mut x = *s; x ^= x << 13; x ^= x >> 7; x ^= x << 17; *s = x; x.wrapping_mul(0x2545F4914F6CDD1D) }

#[derive(Clone, Copy, Debug)]
enum Ev {
    Alloc { id: u32, addr: usize, val: u64, roundtrip_ok: bool },
    Failed,
    Dealloc { id: u32, val: u64, intact: bool },
}
#[derive(Clone, Copy, Debug)]
struct Rec { thread: u8, call: u64, ret: u64, ev: Ev }

#[derive(Default)]
pub struct Stats { pub ops: u64, pub failed: u64, pub overlapping: bool }

fn one_round(case: &PoolFreeCase, round: u32, stats: &mut Stats) -> Option<(String, String)> {
    let size = case.size as usize;
    let n = case.threads.max(2) as usize;
    let pool: Arc<dyn Pool> = make_pool(case.free_list, case.size, case.origin);
    let ledger = Ledger::new();
    let clock = AtomicU64::new(1);
    let arrived = AtomicUsize::new(0);
    let mut all: Vec<Rec> = vec![];
    std::thread::scope(|scope| {
        let handles: Vec<_> = (0..n).map(|t| {
            let (pool, ledger, clock, arrived) = (&pool, &ledger, &clock, &arrived);
            let (ops, hold_max) = (case.ops, case.hold_max.max(1) as usize);
            let mut rng = (case.seed ^ ((t as u64 + 1).wrapping_mul(0x9E3779B97F4A7C15)) ^ ((round as u64) << 32)) | 1;
            scope.spawn(move || {
                payload::set_current_ledger(Some(Arc::clone(ledger)));
                let mut log: Vec<Rec> = Vec::with_capacity(ops as usize + 8);
                let mut held: Vec<(u32, usize, u64)> = vec![];
                let mut seq = 0u32;
                arrived.fetch_add(1, SeqCst);
                while arrived.load(SeqCst) < n { std::hint::spin_loop(); }
                let mut dealloc = |held: &mut Vec<(u32, usize, u64)>, k: usize, by_id: bool, log: &mut Vec<Rec>| {
                    let (id, addr, val) = held.remove(k);
                    let t_ref = unsafe { &*(addr as *const Tracked) };
                    let intact = t_ref.val == val && t_ref.intact();
                    let call = clock.fetch_add(1, SeqCst);
                    if by_id { pool.dealloc_id(id) } else { pool.dealloc_ref(addr) }
                    let ret = clock.fetch_add(1, SeqCst);
                    log.push(Rec { thread: t as u8, call, ret, ev: Ev::Dealloc { id, val, intact } });
                };
                for _ in 0..ops {
                    let r = xorshift(&mut rng);
                    let want_alloc = held.is_empty() || (held.len() < hold_max && (r >> 20) & 3 != 0);
                    if want_alloc {
                        seq += 1;
                        let val = payload::plain(t as u8, seq);
                        let with = (r >> 30) & 1 == 0;
                        let call = clock.fetch_add(1, SeqCst);
                        let got = if with { pool.alloc_with(val) } else { pool.alloc().map(|(addr, id)| { unsafe { std::ptr::write(addr as *mut Tracked, Tracked::new(val)) }; (addr, id) }) };
                        let ret = clock.fetch_add(1, SeqCst);
                        match got {
                            Some((addr, id)) => {
                                let ok = (id as usize) < pool.size() && pool.ref_from_id(id) == addr && pool.id_from_ref(addr) == id;
                                held.push((id, addr, val));
                                log.push(Rec { thread: t as u8, call, ret, ev: Ev::Alloc { id, addr, val, roundtrip_ok: ok } });
                            },
                            None => log.push(Rec { thread: t as u8, call, ret, ev: Ev::Failed }),
                        }
                    } else {
                        let k = ((r >> 33) as usize) % held.len();
                        dealloc(&mut held, k, (r >> 40) & 1 == 0, &mut log);
                    }
                }
                while !held.is_empty() { dealloc(&mut held, 0, true, &mut log); }
                payload::set_current_ledger(None);
                log
            })
        }).collect();
        for h in handles { all.extend(h.join().unwrap_or_default()); }
    });
    let k = format!("pool-free/{:?}/{}", case.free_list, case.size);
    stats.ops += all.len() as u64;
    stats.failed += all.iter().filter(|r| matches!(r.ev, Ev::Failed)).count() as u64;
    // (two calls of different threads overlapped in time)
    {
        let mut v: Vec<&Rec> = all.iter().collect();
        v.sort_by_key(|r| r.call);
        let mut max_ret = [0u64; 64];
        for r in v { if max_ret.iter().enumerate().any(|(t, m)| t != r.thread as usize && *m > r.call) { stats.overlapping = true; break; } max_ret[r.thread as usize % 64] = max_ret[r.thread as usize % 64].max(r.ret); }
    }
    // --- judge
    for r in &all {
        if let Ev::Alloc { id, addr, roundtrip_ok: false, .. } = r.ev { return Some((format!("{k}/id-ref-conversion"), format!("thread {} was given slot id {id} at {addr:#x}: id <-> reference conversion does not round-trip onto the pool of {size}", r.thread))); }
        if let Ev::Dealloc { id, val, intact: false } = r.ev { return Some((format!("{k}/overwritten-while-owned"), format!("thread {} wrote {} into slot {id} when it was allocated; right before deallocating it (at {}) the slot held something else", r.thread, payload::show(val), r.call))); }
    }
    // ownerships per id: (alloc.call, alloc.ret, dealloc.call, dealloc.ret, thread, val)
    let mut deallocs: HashMap<u64, &Rec> = HashMap::new();
    for r in &all { if let Ev::Dealloc { val, .. } = r.ev { deallocs.insert(val, r); } }
    let mut own: HashMap<u32, Vec<(u64, u64, u64, u64, u8, u64)>> = HashMap::new();
    let last = all.iter().map(|r| r.ret).max().unwrap_or(0) + 2;
    for r in &all {
        if let Ev::Alloc { id, val, .. } = r.ev {
            let (dc, dr) = deallocs.get(&val).map(|d| (d.call, d.ret)).unwrap_or((last, last));
            own.entry(id).or_default().push((r.call, r.ret, dc, dr, r.thread, val));
        }
    }
    for (id, list) in own.iter_mut() {
        list.sort_by_key(|o| o.1);
        let mut best: Option<(u64, u64, u64, u64, u8, u64)> = None;      // the earlier ownership whose definite end is the latest
        for o in list.iter() {
            if let Some(b) = best { if o.1 < b.2 {
                return Some((format!("{k}/double-allocation"), format!("slot {id} was owned by thread {} (allocation returned at {}, deallocation called at {}) when an allocation of thread {} returned the same slot at {} (deallocated from {})", b.4, b.1, b.2, o.4, o.1, o.2)));
            } }
            if best.map(|b| o.2 > b.2).unwrap_or(true) { best = Some(*o); }
        }
    }
    // failures: legitimate iff `size` slots were possibly outstanding at some instant of the call
    {
        let m = (last + 2) as usize;
        let mut diff = vec![0i32; m + 1];
        for list in own.values() { for o in list { diff[o.0 as usize] += 1; diff[(o.3.min(last)) as usize + 1] -= 1; } }
        let mut occ = vec![0i32; m + 1];
        let mut run = 0;
        for i in 0..=m { run += diff[i]; occ[i] = run; }
        for r in &all {
            if let Ev::Failed = r.ev {
                let max = (r.call..=r.ret).map(|t| occ[t as usize]).max().unwrap_or(0);
                if max < size as i32 {
                    return Some((format!("{k}/spurious-exhaustion"), format!("thread {}'s allocation over [{},{}] failed although at most {max} of {size} slots could have been outstanding at any instant of the call", r.thread, r.call, r.ret)));
                }
            }
        }
        // never more than `size` definitely owned
        let mut events: Vec<(u64, i32)> = vec![];
        for list in own.values() { for o in list { events.push((o.1, 1)); events.push((o.2, -1)); } }
        events.sort();
        let mut inside = 0;
        for (at, d) in events { inside += d; if inside > size as i32 { return Some((format!("{k}/over-capacity"), format!("{inside} slots of a pool of {size} were owned at instant {at}"))); } }
    }
    // destructors
    if ledger.corrupt() > 0 { return Some((format!("{k}/destructor-on-garbage"), format!("{} destructor run(s) on something that is not an intact payload", ledger.corrupt()))); }
    let drops: HashMap<u64, u32> = ledger.all().into_iter().collect();
    for r in &all { if let Ev::Alloc { val, id, .. } = r.ev { let d = drops.get(&val).copied().unwrap_or(0); if d != 1 { return Some((format!("{k}/destroyed-{}-times", d), format!("{} (slot {id}, thread {}) was deallocated once but its destructor ran {d} times", payload::show(val), r.thread))); } } }
    // refill: exactly `size` allocations succeed now
    payload::set_current_ledger(Some(Arc::clone(&ledger)));
    let mut got = vec![];
    for _ in 0..size + 1 { match pool.alloc_with(payload::plain(250, got.len() as u32 + 1)) { Some((_, id)) => got.push(id), None => break } }
    let distinct = { let mut g = got.clone(); g.sort(); g.dedup(); g.len() };
    for id in &got { pool.dealloc_id(*id); }
    payload::set_current_ledger(None);
    if got.len() != size || distinct != size { return Some((format!("{k}/capacity-after-refill"), format!("after every slot was given back, {} allocations succeeded ({} distinct ids) on a pool of {size}", got.len(), distinct))); }
    None
}

pub fn report(case: &PoolFreeCase) -> RunReport {
    let mut classes = vec![format!("free-list:{:?}", case.free_list), format!("pool:{}", case.size), format!("threads:{}", case.threads)];
    if case.origin != 0 { classes.push("origin-near-wrap".into()); }
    if let Some((signature, detail)) = &case.recorded {
        return RunReport { verdict: Verdict::Violation { signature: signature.clone(), detail: format!("recorded execution: {detail}") }, nontrivial: true, classes, fingerprint: 0, trace: None, summary: detail.clone() };
    }
    let _permit = acquire();
    let mut stats = Stats::default();
    for r in 0..case.rounds.max(1) as u32 {
        let res = std::panic::catch_unwind(std::panic::AssertUnwindSafe(|| one_round(case, r, &mut stats)));
        let v = match res { Ok(v) => v, Err(p) => Some((format!("pool-free/{:?}/{}/panic", case.free_list, case.size), format!("a thread panicked: {}", crate::sched::panic_message(&p)))) };
        if let Some((signature, detail)) = v {
            let mut frozen = case.clone();
            frozen.recorded = Some((signature.clone(), detail.clone()));
            freeze_case(&frozen);
            return RunReport { verdict: Verdict::Violation { signature, detail: format!("free-running, round {r}: {detail}") }, nontrivial: true, classes, fingerprint: 0, trace: None, summary: detail };
        }
    }
    if stats.failed > 0 { classes.push("exhaustion-hit".into()); }
    if stats.overlapping { classes.push("overlap".into()); }
    let fingerprint = { use std::hash::{Hash, Hasher}; let mut h = std::collections::hash_map::DefaultHasher::new(); format!("{case:?}{}", stats.failed).hash(&mut h); h.finish() };
    let summary = format!("{} rounds of {} threads x {} operations on {:?}/{} (each thread keeps at most {} slots): {} calls, {} failed allocations", case.rounds, case.threads, case.ops, case.free_list, case.size, case.hold_max, stats.ops, stats.failed);
    RunReport { verdict: Verdict::Pass, nontrivial: stats.overlapping && stats.failed > 0, classes, fingerprint, trace: None, summary }
}

pub struct C13Free;
impl Property for C13Free {
    type Case = PoolFreeCase;
    fn part(&self) -> &'static str { "pool-free" }
    fn strategy(&self, _tier: Tier) -> BoxedStrategy<PoolFreeCase> {
        (any::<bool>(), any::<u16>(), prop_oneof![3 => Just(0u32), 2 => (0u32..2000).prop_map(|d| u32::MAX - d)], 2u8..=6, 200u32..3000, any::<u16>(), any::<u64>(), 4u16..16)
            .prop_map(|(fs, si, origin, threads, ops, hi, seed, rounds)| {
                let size = pick(&[2u8, 4, 8], si);
                let hold_max = 1 + ((hi as usize * size as usize) >> 16) as u8;
                PoolFreeCase { free_list: if fs { FreeList::FullSync } else { FreeList::Atomic }, size, origin, threads, ops, hold_max, seed, rounds, recorded: None }
            }).boxed()
    }
    fn cases(&self, tier: Tier) -> u32 { match tier { Tier::Quick => 1_000, Tier::Thorough => 12_000 } }
    fn run(&self, case: &PoolFreeCase) -> RunReport { report(case) }
    fn replay(&self, case: &PoolFreeCase) -> RunReport {
        let mut live = case.clone();
        live.recorded = None;
        live.rounds = live.rounds.max(40);
        let note = case.recorded.as_ref().map(|r| format!("recorded execution: {} ({}); ", r.0, r.1)).unwrap_or_default();
        for i in 0..20 {
            let mut r = report(&live);
            if let Verdict::Violation { signature, detail } = r.verdict { r.verdict = Verdict::Violation { signature, detail: format!("{note}reproduced live in re-execution #{}: {detail}", i + 1) }; return r; }
        }
        let mut r = RunReport::pass();
        r.summary = format!("{note}not reproduced in 20 live re-executions of the workload on the current tree");
        r
    }
    fn rule(&self) -> String {
        "free-running (real OS threads, no scheduler): free list {Atomic, FullSync} x POOL_SIZE {2,4,8} x free-list sequence origin {0 | within 2000 of the u32 wrap} x 2..6 threads x 200..2999 operations each from per-thread PRNGs (allocate with alloc_ref + write or alloc_with while holding fewer than 1..POOL_SIZE slots, otherwise give one back by id or by reference), 4..15 rounds per case; every call / return stamped from one global atomic counter; \
         oracle: two definite ownerships (allocation returned .. deallocation called) of one slot id never overlap; id <-> reference conversion round-trips onto the pool; the payload written at allocation is still there right before the deallocation; an allocation fails only if POOL_SIZE slots were possibly outstanding (allocation called .. deallocation returned) at some instant of the call; never more than POOL_SIZE definitely owned; every value destroyed exactly once, no destructor on garbage; afterwards exactly POOL_SIZE allocations succeed; \
         non-trivial: calls of different threads really overlapped AND an allocation failed".into()
    }
}
