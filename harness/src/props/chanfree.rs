//! E5 for the channels: free-running executions of the Uni / Multi channels on real OS threads (no scheduler: the `verif` shim is a
//! pass-through on these threads, `yield_point`s are no-ops).
//!
//! What it adds to the controlled-schedule parts: real parallelism (x86-TSO behaviours, races inside sections that hold no scheduling
//! point -- e.g. two reads of one array element, as in defect R13), the un-instrumented synchronisation of crossbeam / parking_lot /
//! std `Arc`, larger configurations ((16,16), (64,8)) with up to 4 producers and 4 consumers at full speed, and real wakers
//! (a consumer thread that *parks* on `Pending` and is unparked by the waker the channel invokes).
//!
//! A case is a workload; every case runs `rounds` executions on fresh channels (threads persist across rounds, started together through
//! a spin barrier). Every call and return is stamped from one global atomic counter; `A` precedes `B` only if `A.ret < B.call`, so the
//! oracles are sound whatever the OS does. Wall-clock time is only used to *give up waiting* (inconclusive), never as a verdict: the
//! lost-wake-up verdict is a decided fact -- every producer has returned, every consumer is parked on a waker nobody invoked since its
//! last poll, accepted events are undelivered; nothing can run any more.
//!
//! One execution machinery, five oracle selections (`Focus`), each registered as a part of the property it decides:
//! C01 exactly-once / integrity / rejected inputs; C02 FIFO order, 'nothing' and 'full' answers, capacity; C03 per-listener exactly-once,
//! order, shared allocation; C04 no lost wake-up (driven consumers); C05 destruction exactly once, nothing destroyed / overwritten /
//! re-used while held, teardown.
//!
//! Executions are not reproducible from the case: a violating execution is frozen into the case (`recorded`) and re-judged on replay,
//! then the workload is re-executed live (as `free.rs`).

use crate::chan::{self, Chan, ChanKind, Entry, Gate, StreamH};
use crate::driver::{freeze_case, pick, Property, RunReport, Tier, Verdict};
use crate::lin::{Act, Op};
use crate::payload::{self, Ledger};
use crate::props::free;
use proptest::prelude::*;
use serde::{Deserialize, Serialize};
use std::collections::{HashMap, HashSet};
use std::sync::atomic::{AtomicBool, AtomicU32, AtomicU64, AtomicUsize, Ordering::SeqCst};
use std::sync::{Arc, Condvar, Mutex};
use std::task::{Context, Poll, Wake, Waker};
use std::time::{Duration, Instant};

#[derive(Clone, Copy, Debug, PartialEq, Eq, Serialize, Deserialize)]
pub enum Focus { Delivery, Fifo, Fanout, Wakeup, PayloadLife }

#[derive(Clone, Debug, Serialize, Deserialize)]
pub struct Prod { pub entry: Entry, pub events: u16 }

#[derive(Clone, Debug, Serialize, Deserialize)]
pub struct ChanFreeCase {
    pub kind:        ChanKind,
    pub buffer:      u8,
    pub max_streams: u8,
    pub origin:      u32,
    pub producers:   Vec<Prod>,
    /// Uni: consumer streams; Multi: listeners (all created before the first send)
    pub consumers:   u8,
    /// consumers park on `Pending` until their waker is invoked (otherwise they poll in a loop)
    pub driven:      bool,
    /// spin iterations a consumer keeps an item before releasing it
    pub hold:        u16,
    pub rounds:      u16,
    /// this consumer sleeps 2 ms after every item (its queue fills up: on the Arc-based Multi kinds the sender then *waits* for room, by design)
    #[serde(default)]
    pub slow_consumer: Option<u8>,
    #[serde(default)]
    pub recorded:    Option<Rec>,
}

#[derive(Clone, Debug, Serialize, Deserialize)]
pub struct SendEv { pub thread: u8, pub v: u64, pub entry: Entry, pub accepted: bool, pub contract_ok: bool, pub call: u64, pub ret: u64 }

#[derive(Clone, Debug, Serialize, Deserialize)]
pub struct PollEv {
    pub stream: u8,
    /// `Some(value)`: an item was yielded; `None`: `Pending` (or end-of-stream when `ended`)
    pub got:    Option<u64>,
    pub ended:  bool,
    pub addr:   usize,
    pub intact_at_receipt: bool,
    pub intact_at_release: bool,
    pub call:   u64,
    pub ret:    u64,
    /// call / return of the release (drop) of the item's handle
    pub rel_call: u64,
    pub rel_ret:  u64,
}

#[derive(Clone, Debug, Default, Serialize, Deserialize)]
pub struct Rec {
    pub round:   u32,
    pub sends:   Vec<SendEv>,
    pub polls:   Vec<PollEv>,
    /// consumers found parked on an un-invoked waker, with accepted events they are entitled to undelivered, after every producer had returned
    pub stuck:   Vec<u8>,
    /// stamp taken when that was established (deliveries after it were triggered by the cancel_all_streams() that followed)
    #[serde(default)]
    pub stuck_at: u64,
    /// the coordinator stopped waiting (10 s) for the deliveries and cancelled the streams early
    pub timed_out: bool,
    /// a consumer did not end after cancel_all_streams() and was forced out
    pub forced:  bool,
    /// a producer stopped retrying a rejected send (2 s without room)
    pub gave_up: bool,
    pub pending_at_end: u32,
    /// destruction counts per payload value once every stream was dropped (channel still alive) / after the channel was dropped too
    pub drops_before_teardown: Vec<(u64, u32)>,
    pub drops:   Vec<(u64, u32)>,
    pub corrupt_drops: u32,
    pub parks:   u32,
    pub pendings_not_recorded: u32,
}

// ---------------------------------------------------------------------------------------------------------------------
// execution

struct Sem { m: Mutex<usize>, cv: Condvar }
static SEM: Sem = Sem { m: Mutex::new(0), cv: Condvar::new() };
const SLOTS: usize = 3;
struct Permit;
fn acquire() -> Permit { let mut g = SEM.m.lock().unwrap(); while *g >= SLOTS { g = SEM.cv.wait(g).unwrap(); } *g += 1; Permit }
impl Drop for Permit { fn drop(&mut self) { *SEM.m.lock().unwrap() -= 1; SEM.cv.notify_one(); } }

#[derive(Default)]
struct ParkSt { woken: bool, parked: bool, exited: bool }
#[derive(Default)]
struct Park { m: Mutex<ParkSt>, cv: Condvar }
impl Wake for Park {
    fn wake(self: Arc<Self>) { self.wake_by_ref() }
    fn wake_by_ref(self: &Arc<Self>) { let mut g = self.m.lock().unwrap(); g.woken = true; self.cv.notify_all(); }
}

fn spin_until(counter: &AtomicUsize, target: usize) {
    let mut spins = 0u32;
    while counter.load(SeqCst) < target {
        spins += 1;
        if spins % 64 == 0 { std::thread::yield_now(); } else { std::hint::spin_loop(); }
    }
}

struct Round {
    chan:      Mutex<Option<Arc<dyn Chan>>>,
    streams:   Vec<Mutex<Option<Box<dyn StreamH>>>>,
    parks:     Vec<Arc<Park>>,
    ledger:    Arc<Ledger>,
    accepted:  AtomicU32,
    delivered: Vec<AtomicU32>,
    prod_done: AtomicUsize,
    cons_done: AtomicUsize,
    force_exit: AtomicBool,
    gave_up:   AtomicBool,
}

const MAX_PENDINGS_RECORDED: usize = 1500;

fn one_send(chan: &dyn Chan, entry: Entry, v: u64) -> chan::SendRes {
    match entry {
        Entry::Send => chan.send(v),
        Entry::SendWith => chan.send_with(v),
        Entry::SendAsync(k) => {
            let gate = Arc::new(Gate::default());
            gate.remaining.store(k as u32, SeqCst);
            let mut fut = chan.send_async(v, gate);
            let waker = futures::task::noop_waker();
            let mut cx = Context::from_waker(&waker);
            loop {
                match fut.as_mut().poll(&mut cx) { Poll::Ready(r) => break r, Poll::Pending => std::hint::spin_loop() }
            }
        },
        Entry::Reserved => match chan.reserve() {
            None => chan::SendRes { accepted: false, contract_ok: true },
            Some(slot) => {
                chan.fill(slot, v);
                let mut spins = 0u32;
                while !chan.send_reserved(slot) { spins += 1; if spins % 64 == 0 { std::thread::yield_now(); } else { std::hint::spin_loop(); } }
                chan::SendRes { accepted: true, contract_ok: true }
            },
        },
        Entry::Derived => chan::SendRes { accepted: chan.send_derived(v), contract_ok: true },
    }
}

pub fn execute(case: &ChanFreeCase) -> Vec<Rec> {
    let rounds = case.rounds.max(1) as usize;
    let np = case.producers.len();
    let nc = case.consumers.max(1) as usize;
    let uni = case.kind.is_uni();
    let clock = AtomicU64::new(1);
    let arrived = AtomicUsize::new(0);
    let all = np + nc + 1;
    let rs: Vec<Round> = (0..rounds).map(|_| {
        let chan = chan::make(case.kind, case.buffer, case.max_streams, case.origin);
        let streams = (0..nc).map(|_| Mutex::new(Some(chan.create_stream()))).collect();
        Round { chan: Mutex::new(Some(chan)), streams, parks: (0..nc).map(|_| Arc::new(Park::default())).collect(), ledger: Ledger::new(), accepted: AtomicU32::new(0),
                delivered: (0..nc).map(|_| AtomicU32::new(0)).collect(), prod_done: AtomicUsize::new(0), cons_done: AtomicUsize::new(0), force_exit: AtomicBool::new(false), gave_up: AtomicBool::new(false) }
    }).collect();
    let chans: Vec<Arc<dyn Chan>> = rs.iter().map(|r| Arc::clone(r.chan.lock().unwrap().as_ref().unwrap())).collect();
    let mut recs: Vec<Rec> = (0..rounds).map(|r| Rec { round: r as u32, ..Default::default() }).collect();
    let mut send_logs: Vec<Vec<(u32, SendEv)>> = vec![];
    let mut poll_logs: Vec<Vec<(u32, PollEv)>> = vec![];
    let mut extra: Vec<(bool, bool, Vec<u8>, u32, u64)> = vec![];       // per round: timed_out, forced, stuck, pending_at_end, stuck_at
    let mut ledgers: Vec<(Vec<(u64, u32)>, Vec<(u64, u32)>, u32)> = vec![];
    let parks_count = AtomicU32::new(0);
    let pend_skipped = AtomicU32::new(0);
    std::thread::scope(|scope| {
        // --- producers
        let prod_handles: Vec<_> = case.producers.iter().enumerate().map(|(t, p)| {
            let (clock, arrived, rs, chans) = (&clock, &arrived, &rs, &chans);
            let p = p.clone();
            scope.spawn(move || {
                let mut log: Vec<(u32, SendEv)> = vec![];
                let mut seq = 0u32;
                for r in 0..rounds {
                    payload::set_current_ledger(Some(Arc::clone(&rs[r].ledger)));
                    arrived.fetch_add(1, SeqCst);
                    spin_until(arrived, (r + 1) * all);
                    let chan = &*chans[r];
                    'events: for _ in 0..p.events {
                        let started = Instant::now();
                        let mut tries = 0u32;
                        loop {
                            seq += 1;
                            let v = payload::plain(t as u8, seq);
                            let call = clock.fetch_add(1, SeqCst);
                            let res = one_send(chan, p.entry, v);
                            let ret = clock.fetch_add(1, SeqCst);
                            log.push((r as u32, SendEv { thread: t as u8, v, entry: p.entry, accepted: res.accepted, contract_ok: res.contract_ok, call, ret }));
                            if res.accepted { rs[r].accepted.fetch_add(1, SeqCst); break; }
                            // (every rejected attempt stays in the log: each is judged by the 'full' rule and counts as in progress for the others)
                            tries += 1;
                            if tries > 64 { std::thread::sleep(Duration::from_micros(20)); } else if tries % 4 == 0 { std::thread::yield_now(); }
                            if tries % 64 == 0 && started.elapsed() > Duration::from_secs(2) { rs[r].gave_up.store(true, SeqCst); break 'events; }
                        }
                    }
                    rs[r].prod_done.fetch_add(1, SeqCst);
                }
                payload::set_current_ledger(None);
                log
            })
        }).collect();
        // --- consumers
        let cons_handles: Vec<_> = (0..nc).map(|c| {
            let (clock, arrived, rs, parks_count, pend_skipped) = (&clock, &arrived, &rs, &parks_count, &pend_skipped);
            let (driven, hold) = (case.driven, case.hold);
            let slow = case.slow_consumer == Some(c as u8);
            scope.spawn(move || {
                let mut log: Vec<(u32, PollEv)> = vec![];
                for r in 0..rounds {
                    payload::set_current_ledger(Some(Arc::clone(&rs[r].ledger)));
                    let mut stream = rs[r].streams[c].lock().unwrap().take().expect("stream");
                    let park = Arc::clone(&rs[r].parks[c]);
                    let waker = Waker::from(Arc::clone(&park));
                    arrived.fetch_add(1, SeqCst);
                    spin_until(arrived, (r + 1) * all);
                    let mut pendings = 0usize;
                    let mut idle = 0u32;
                    loop {
                        if rs[r].force_exit.load(SeqCst) { break; }
                        park.m.lock().unwrap().woken = false;
                        let call = clock.fetch_add(1, SeqCst);
                        let res = stream.poll(&waker);
                        let ret = clock.fetch_add(1, SeqCst);
                        match res {
                            Poll::Ready(Some(item)) => {
                                idle = 0;
                                let (v, addr, ok1) = (item.val(), item.addr(), item.intact());
                                for _ in 0..hold { std::hint::spin_loop(); }
                                let ok2 = item.intact() && item.val() == v;
                                let rel_call = clock.fetch_add(1, SeqCst);
                                drop(item);
                                let rel_ret = clock.fetch_add(1, SeqCst);
                                log.push((r as u32, PollEv { stream: c as u8, got: Some(v), ended: false, addr, intact_at_receipt: ok1, intact_at_release: ok2, call, ret, rel_call, rel_ret }));
                                rs[r].delivered[c].fetch_add(1, SeqCst);
                                if slow { std::thread::sleep(Duration::from_millis(2)); }
                            },
                            Poll::Ready(None) => {
                                log.push((r as u32, PollEv { stream: c as u8, got: None, ended: true, addr: 0, intact_at_receipt: true, intact_at_release: true, call, ret, rel_call: ret, rel_ret: ret }));
                                break;
                            },
                            Poll::Pending => {
                                if pendings < MAX_PENDINGS_RECORDED {
                                    log.push((r as u32, PollEv { stream: c as u8, got: None, ended: false, addr: 0, intact_at_receipt: true, intact_at_release: true, call, ret, rel_call: ret, rel_ret: ret }));
                                } else { pend_skipped.fetch_add(1, SeqCst); }
                                pendings += 1;
                                if driven {
                                    let mut g = park.m.lock().unwrap();
                                    if !g.woken { parks_count.fetch_add(1, SeqCst); }
                                    g.parked = true;
                                    while !g.woken && !rs[r].force_exit.load(SeqCst) {
                                        g = park.cv.wait_timeout(g, Duration::from_millis(20)).unwrap().0;
                                    }
                                    g.parked = false;
                                } else {
                                    idle += 1;
                                    if idle % 8 == 0 { std::thread::yield_now(); } else { for _ in 0..(idle.min(64)) { std::hint::spin_loop(); } }
                                }
                            },
                        }
                    }
                    park.m.lock().unwrap().exited = true;
                    *rs[r].streams[c].lock().unwrap() = Some(stream);
                    rs[r].cons_done.fetch_add(1, SeqCst);
                }
                payload::set_current_ledger(None);
                log
            })
        }).collect();
        // --- coordinator (this thread)
        for r in 0..rounds {
            payload::set_current_ledger(Some(Arc::clone(&rs[r].ledger)));
            arrived.fetch_add(1, SeqCst);
            spin_until(&arrived, (r + 1) * all);
            let rd = &rs[r];
            let mut spins = 0u32;
            while rd.prod_done.load(SeqCst) < np { spins += 1; if spins % 16 == 0 { std::thread::yield_now(); } else { std::hint::spin_loop(); } }
            let accepted = rd.accepted.load(SeqCst);
            let deadline = Instant::now() + Duration::from_secs(10);
            let all_delivered = |rd: &Round| -> bool {
                if uni { rd.delivered.iter().map(|d| d.load(SeqCst)).sum::<u32>() >= accepted } else { rd.delivered.iter().all(|d| d.load(SeqCst) >= accepted) }
            };
            let mut stuck: Vec<u8> = vec![];
            let mut stuck_at = 0u64;
            let mut timed_out = false;
            let mut n = 0u32;
            loop {
                if all_delivered(rd) { break; }
                if case.driven {
                    let all_parked = rd.parks.iter().all(|p| { let g = p.m.lock().unwrap(); g.exited || (g.parked && !g.woken) });
                    if all_parked {
                        // every consumer is parked on a waker nobody has invoked since its last poll, and every producer has returned: final
                        if !all_delivered(rd) {
                            stuck = (0..nc).filter(|c| uni || rd.delivered[*c].load(SeqCst) < accepted).map(|c| c as u8).collect();
                            stuck_at = clock.fetch_add(1, SeqCst);
                        }
                        break;
                    }
                }
                n += 1;
                if n % 64 == 0 { if Instant::now() > deadline { timed_out = true; break; } std::thread::sleep(Duration::from_micros(50)); } else { std::thread::yield_now(); }
            }
            chans[r].cancel_all();
            let deadline = Instant::now() + Duration::from_secs(10);
            let mut forced = false;
            let mut n = 0u32;
            while rd.cons_done.load(SeqCst) < nc {
                n += 1;
                if n % 64 == 0 { if Instant::now() > deadline { forced = true; rd.force_exit.store(true, SeqCst); for p in &rd.parks { p.cv.notify_all(); } while rd.cons_done.load(SeqCst) < nc { std::thread::sleep(Duration::from_millis(1)); } break; } std::thread::sleep(Duration::from_micros(50)); } else { std::thread::yield_now(); }
            }
            let pending_at_end = chans[r].pending();
            extra.push((timed_out, forced, stuck, pending_at_end, stuck_at));
            // teardown of this round: streams first, then the channel (payload handles were all released by the consumers)
            for s in &rd.streams { drop(s.lock().unwrap().take()); }
            let before = rd.ledger.all();
            drop(rd.chan.lock().unwrap().take());
            ledgers.push((before, vec![], 0));
        }
        payload::set_current_ledger(None);
        for h in prod_handles { send_logs.push(h.join().unwrap_or_default()); }
        for h in cons_handles { poll_logs.push(h.join().unwrap_or_default()); }
    });
    // the last handle of every channel goes here (the producers' `chans` clones): destruction of what was still buffered is recorded by the round's ledger
    for (r, ch) in chans.into_iter().enumerate() {
        payload::set_current_ledger(Some(Arc::clone(&rs[r].ledger)));
        drop(ch);
        ledgers[r].1 = rs[r].ledger.all();
        ledgers[r].2 = rs[r].ledger.corrupt();
    }
    payload::set_current_ledger(None);
    for log in send_logs { for (r, e) in log { recs[r as usize].sends.push(e); } }
    for log in poll_logs { for (r, e) in log { recs[r as usize].polls.push(e); } }
    for (r, rec) in recs.iter_mut().enumerate() {
        let (timed_out, forced, stuck, pending_at_end, stuck_at) = extra[r].clone();
        rec.timed_out = timed_out; rec.forced = forced; rec.stuck = stuck; rec.pending_at_end = pending_at_end; rec.stuck_at = stuck_at;
        rec.gave_up = rs[r].gave_up.load(SeqCst);
        rec.drops_before_teardown = std::mem::take(&mut ledgers[r].0);
        rec.drops = std::mem::take(&mut ledgers[r].1);
        rec.corrupt_drops = ledgers[r].2;
    }
    if let Some(first) = recs.first_mut() { first.parks = parks_count.load(SeqCst); first.pendings_not_recorded = pend_skipped.load(SeqCst); }
    recs
}

// ---------------------------------------------------------------------------------------------------------------------
// oracles

fn show(v: u64) -> String { payload::show(v) }

pub fn judge(case: &ChanFreeCase, focus: Focus, r: &Rec) -> Option<(String, String)> {
    let k = format!("free/{}", case.kind.short());
    let uni = case.kind.is_uni();
    let nc = case.consumers.max(1) as usize;
    let accepted: HashMap<u64, &SendEv> = r.sends.iter().filter(|s| s.accepted).map(|s| (s.v, s)).collect();
    let rejected: HashSet<u64> = r.sends.iter().filter(|s| !s.accepted).map(|s| s.v).collect();
    let deliveries: Vec<&PollEv> = r.polls.iter().filter(|p| p.got.is_some()).collect();
    let where_ = |p: &PollEv| format!("{} {} over [{},{}]", if uni { "stream" } else { "listener" }, p.stream, p.call, p.ret);
    match focus {
        Focus::Delivery | Focus::Fanout => {
            if let Some(s) = r.sends.iter().find(|s| !s.contract_ok) {
                return Some((format!("{k}/contract-broken/{}", if s.accepted { "accepted" } else { "rejected" }),
                             format!("producer {} {:?}({}) over [{},{}] answered {}: {}", s.thread, s.entry, show(s.v), s.call, s.ret, if s.accepted { "Ok" } else { "rejected" },
                                     if s.accepted { "the setter did not run exactly once" } else { "the payload / setter handed back is not the one passed in, un-invoked" })));
            }
            let mut seen: Vec<HashMap<u64, &PollEv>> = (0..nc).map(|_| HashMap::new()).collect();
            for p in &deliveries {
                let v = p.got.unwrap();
                if !p.intact_at_receipt || payload::decode(v).is_none() { return Some((format!("{k}/corrupt-payload"), format!("{} yielded a corrupted payload ({v:#x})", where_(p)))); }
                if !accepted.contains_key(&v) {
                    return Some(if rejected.contains(&v) { (format!("{k}/rejected-delivered"), format!("{} yielded {}, whose send was rejected", where_(p), show(v))) }
                                else { (format!("{k}/invented"), format!("{} yielded {}, which was never sent", where_(p), show(v))) });
                }
                if accepted[&v].call > p.ret { return Some((format!("{k}/invented"), format!("{} yielded {} before its send started (at {})", where_(p), show(v), accepted[&v].call))); }
                let slot = if uni { 0 } else { p.stream as usize };
                if let Some(prev) = seen[slot].insert(v, p) {
                    return Some((format!("{k}/duplicated"), format!("{} was yielded twice: by {} and by {}", show(v), where_(prev), where_(p))));
                }
            }
            if !r.forced {
                for slot in 0..(if uni { 1 } else { nc }) {
                    if let Some((v, s)) = accepted.iter().find(|(v, _)| !seen[slot].contains_key(*v)) {
                        return Some((format!("{k}/lost"), format!("{} was accepted ({:?} by producer {} over [{},{}]) and never yielded{} although the streams were polled until they ended ({} accepted, {} yielded{})",
                                                                 show(*v), s.entry, s.thread, s.call, s.ret, if uni { String::new() } else { format!(" to listener {slot}") }, accepted.len(), seen[slot].len(),
                                                                 if r.timed_out { "; the coordinator had stopped waiting and cancelled early" } else { "" })));
                    }
                }
            }
            if focus == Focus::Fanout {
                // order per producer on every listener; one shared allocation per event
                for c in 0..nc {
                    let mut mine: Vec<&&PollEv> = deliveries.iter().filter(|p| p.stream as usize == c).collect();
                    mine.sort_by_key(|p| p.call);
                    let mut last: HashMap<u8, u32> = HashMap::new();
                    for p in mine {
                        let (prod, seq) = payload::decode(p.got.unwrap()).unwrap();
                        if let Some(prev) = last.insert(prod, seq) { if prev > seq { return Some((format!("{k}/order"), format!("listener {c} yielded p{prod}#{seq} after p{prod}#{prev}"))); } }
                    }
                }
                let mut addr: HashMap<u64, (usize, u8)> = HashMap::new();
                for p in &deliveries {
                    let v = p.got.unwrap();
                    if let Some((a, c)) = addr.insert(v, (p.addr, p.stream)) {
                        if a != p.addr { return Some((format!("{k}/different-allocation"), format!("{} reached listener {c} at {a:#x} and listener {} at {:#x}: not the same shared allocation", show(v), p.stream, p.addr))); }
                    }
                }
            }
            None
        },
        Focus::Fifo => {
            // per stream: one producer's events in that producer's send order
            for c in 0..nc {
                let mut mine: Vec<&&PollEv> = deliveries.iter().filter(|p| p.stream as usize == c).collect();
                mine.sort_by_key(|p| p.call);
                let mut last: HashMap<u8, u32> = HashMap::new();
                for p in mine {
                    if let Some((prod, seq)) = payload::decode(p.got.unwrap()) {
                        if let Some(prev) = last.insert(prod, seq) { if prev > seq { return Some((format!("{k}/order/per-stream"), format!("stream {c} yielded p{prod}#{seq} after p{prod}#{prev}"))); } }
                    }
                }
            }
            // the history as insertions / removals of one bounded queue (pooled kinds: an event occupies its slot until the handle is released)
            let pooled = case.kind.is_pooled();
            let mut ops: Vec<Op> = r.sends.iter().map(|s| Op { thread: s.thread, act: Act::Put { v: s.v, ok: s.accepted }, call: s.call, ret: s.ret }).collect();
            for p in &r.polls {
                if p.ended { continue; }
                ops.push(Op { thread: 100 + p.stream, act: Act::Get { got: p.got }, call: p.call, ret: if pooled && p.got.is_some() { p.rel_ret } else { p.ret } });
            }
            if r.forced { return None; }
            let rec = free::Recorded { ops, prefill: vec![], drained: vec![], len_at_end: r.pending_at_end as usize, round: r.round };
            free::judge_long_labelled(&k, false, case.buffer as usize, &rec)
        },
        Focus::Wakeup => {
            if r.stuck.is_empty() { return None; }
            let c = r.stuck[0] as usize;
            let got: HashSet<u64> = deliveries.iter().filter(|p| (uni || p.stream as usize == c) && p.call < r.stuck_at).map(|p| p.got.unwrap()).collect();
            // (only events that did come out once cancel_all_streams() woke the consumer: an event that never comes out is a loss -- C01 / C03 --, not a lost wake-up)
            let later: HashSet<u64> = deliveries.iter().filter(|p| (uni || p.stream as usize == c) && p.call >= r.stuck_at).map(|p| p.got.unwrap()).collect();
            let missing: Vec<&SendEv> = { let mut m: Vec<&SendEv> = accepted.values().copied().filter(|s| !got.contains(&s.v) && later.contains(&s.v)).collect(); m.sort_by_key(|s| s.call); m };
            if missing.is_empty() { return None; }
            let entry = missing.first().map(|s| format!("{:?}", s.entry)).unwrap_or_default();
            let entry = entry.split('(').next().unwrap_or("").to_string();
            Some((format!("{k}/lost-wakeup/{entry}"),
                  format!("after every producer had returned, {} {:?} stayed parked on wakers nobody invoked since their last poll while {} accepted event(s) were undelivered (first: {} accepted over [{},{}]; they only came out after the cancel_all_streams() that ended the round); nothing can run any more without a further send",
                          if uni { "streams" } else { "listeners" }, r.stuck, missing.len(), missing.first().map(|s| show(s.v)).unwrap_or_default(), missing.first().map(|s| s.call).unwrap_or(0), missing.first().map(|s| s.ret).unwrap_or(0))))
        },
        Focus::PayloadLife => {
            for p in &deliveries {
                let v = p.got.unwrap();
                if !p.intact_at_receipt { return Some((format!("{k}/corrupt-at-receipt"), format!("{} yielded a payload that is destroyed / overwritten / garbage ({v:#x})", where_(p)))); }
                if !p.intact_at_release { return Some((format!("{k}/destroyed-or-overwritten-while-held"), format!("{}: {} was intact when yielded but destroyed / overwritten before its handle was released (at {})", where_(p), show(v), p.rel_call))); }
            }
            // storage of a held payload given to another event
            {
                let mut by_addr: HashMap<usize, Vec<&PollEv>> = HashMap::new();
                for p in &deliveries { by_addr.entry(p.addr).or_default().push(p); }
                for (a, ps) in &by_addr {
                    for x in ps { for y in ps {
                        if x.got != y.got && x.ret < y.rel_call && y.ret < x.rel_call && x.ret <= y.ret {
                            return Some((format!("{k}/storage-reused-while-held"), format!("{} (held over [{},{}]) and {} (held over [{},{}]) were both at {a:#x}", show(x.got.unwrap()), x.ret, x.rel_call, show(y.got.unwrap()), y.ret, y.rel_call)));
                        }
                    } }
                }
            }
            if r.corrupt_drops > 0 { return Some((format!("{k}/destructor-on-garbage"), format!("{} destructor run(s) on something that is not an intact payload (never written, already destroyed or overwritten)", r.corrupt_drops))); }
            if let Some((v, n)) = r.drops.iter().find(|(_, n)| *n > 1) { return Some((format!("{k}/destroyed-twice"), format!("{} was destroyed {n} times", show(*v)))); }
            if r.forced || case.kind.is_mmap() { return None; }
            let derived_rejected: HashSet<u64> = r.sends.iter().filter(|s| !s.accepted && s.entry == Entry::Derived).map(|s| s.v).collect();
            let before: HashMap<u64, u32> = r.drops_before_teardown.iter().copied().collect();
            let after: HashMap<u64, u32> = r.drops.iter().copied().collect();
            let released: HashMap<u64, usize> = { let mut m = HashMap::new(); for p in &deliveries { *m.entry(p.got.unwrap()).or_insert(0) += 1; } m };
            for (v, s) in &accepted {
                let fully = released.get(v).copied().unwrap_or(0) >= if uni { 1 } else { nc };
                if fully && before.get(v).copied().unwrap_or(0) != 1 {
                    return Some((format!("{k}/not-destroyed-after-last-release"), format!("{} ({:?} by producer {}) was delivered and every handle to it released, yet its destructor had run {} times when the streams were dropped", show(*v), s.entry, s.thread, before.get(v).copied().unwrap_or(0))));
                }
                if after.get(v).copied().unwrap_or(0) != 1 {
                    return Some((format!("{k}/not-destroyed-exactly-once"), format!("{} ({:?} by producer {}) was destroyed {} times by the time the channel was gone", show(*v), s.entry, s.thread, after.get(v).copied().unwrap_or(0))));
                }
            }
            for v in &rejected {
                if derived_rejected.contains(v) { continue; }
                if after.get(v).copied().unwrap_or(0) != 0 { return Some((format!("{k}/rejected-payload-destroyed"), format!("{}, whose send was rejected (the harness keeps it), was destroyed by the channel", show(*v)))); }
            }
            None
        },
    }
}

fn overlap_share(r: &Rec) -> (usize, usize) {
    // (sends that started while an operation of another thread was in progress -- a lower bound of the overlapping ones --, sends)
    let mut iv: Vec<(u64, u64, u8, bool)> = r.sends.iter().map(|s| (s.call, s.ret, s.thread, true)).collect();
    iv.extend(r.polls.iter().filter(|p| p.got.is_some()).map(|p| (p.call, p.ret, 100 + p.stream, false)));
    iv.sort();
    let mut max_ret = [0u64; 256];
    let mut ov = 0;
    for (call, ret, t, is_send) in &iv {
        if *is_send && max_ret.iter().enumerate().any(|(o, m)| o != *t as usize && *m > *call) { ov += 1; }
        if *ret > max_ret[*t as usize] { max_ret[*t as usize] = *ret; }
    }
    (ov, r.sends.len())
}

pub fn render(r: &Rec) -> String {
    let mut ev: Vec<(u64, String)> = vec![];
    for s in &r.sends { ev.push((s.call, format!("P{}[{}..{}]{:?}({})={}", s.thread, s.call, s.ret, s.entry, show(s.v), if s.accepted { "ok" } else { "FULL" }))); }
    for p in &r.polls {
        ev.push((p.call, match (p.got, p.ended) {
            (Some(v), _) => format!("S{}[{}..{}]={} released[{}..{}]", p.stream, p.call, p.ret, show(v), p.rel_call, p.rel_ret),
            (None, true) => format!("S{}[{}..{}]=END", p.stream, p.call, p.ret),
            (None, false) => format!("S{}[{}..{}]=Pending", p.stream, p.call, p.ret),
        }));
    }
    ev.sort();
    let mut s = ev.into_iter().map(|e| e.1).collect::<Vec<_>>().join(" ");
    if s.len() > 2500 { s.truncate(2500); s.push_str(" ..."); }
    s
}

pub fn report(case: &ChanFreeCase, focus: Focus) -> RunReport {
    let mut classes = vec![format!("kind:{}", case.kind.short()), format!("buffer:{}", case.buffer), format!("consumers:{}", case.consumers), format!("producers:{}", case.producers.len()),
                           format!("mode:{}", if case.driven { "driven (parks on Pending)" } else { "spin-polling" })];
    for p in &case.producers { let e = format!("{:?}", p.entry); let c = format!("entry:{}", e.split('(').next().unwrap_or("")); if !classes.contains(&c) { classes.push(c); } }
    if case.origin != 0 { classes.push("origin-near-wrap".into()); }
    if case.slow_consumer.is_some() { classes.push("full-listener-queue(sender-waits)".into()); }
    if let Some(r) = &case.recorded {
        let verdict = match judge(case, focus, r) { None => Verdict::Pass, Some((signature, detail)) => Verdict::Violation { signature, detail } };
        return RunReport { verdict, nontrivial: true, classes, fingerprint: 0, trace: None, summary: render(r) };
    }
    let _permit = acquire();
    let recs = execute(case);
    let mut fp = 0u64;
    let (mut ov, mut total, mut rejected, mut pendings, mut forced, mut timed_out, mut gave_up) = (0usize, 0usize, 0usize, 0usize, 0usize, 0usize, 0usize);
    let mut sample = String::new();
    for r in &recs {
        let (o, n) = overlap_share(r);
        ov += o; total += n;
        rejected += r.sends.iter().filter(|s| !s.accepted).count();
        pendings += r.polls.iter().filter(|p| p.got.is_none() && !p.ended).count();
        if r.forced { forced += 1; }
        if r.timed_out { timed_out += 1; }
        if r.gave_up { gave_up += 1; }
        if o > 0 {
            use std::hash::{Hash, Hasher};
            let mut h = std::collections::hash_map::DefaultHasher::new();
            format!("{:?}{}{}{:?}{}", case.kind, case.buffer, case.consumers, case.producers, case.driven).hash(&mut h);
            let mut ev: Vec<(u64, u8, bool)> = r.sends.iter().flat_map(|s| [(s.call, s.thread, false), (s.ret, s.thread, true)]).collect();
            ev.extend(r.polls.iter().filter(|p| p.got.is_some()).flat_map(|p| [(p.call, 100 + p.stream, false), (p.ret, 100 + p.stream, true)]));
            ev.sort();
            ev.iter().map(|e| (e.1, e.2)).collect::<Vec<_>>().hash(&mut h);
            fp ^= h.finish();
            if sample.is_empty() { sample = format!("round {} of {}: {}", r.round, recs.len(), render(r)); }
        }
        if let Some((signature, detail)) = judge(case, focus, r) {
            let mut frozen = case.clone();
            frozen.recorded = Some(r.clone());
            freeze_case(&frozen);
            return RunReport { verdict: Verdict::Violation { signature, detail: format!("free-running, round {}: {detail}", r.round) }, nontrivial: true, classes, fingerprint: fp, trace: None, summary: render(r) };
        }
    }
    let parks = recs.first().map(|r| r.parks).unwrap_or(0);
    if rejected > 0 { classes.push("rejected-send".into()); }
    if pendings > 0 { classes.push("pending-answer".into()); }
    if parks > 0 { classes.push("consumer-parked".into()); }
    let share = if total == 0 { 0 } else { ov * 100 / total };
    classes.push(format!("sends-overlapping-another-thread:{}", if share == 0 { "0%" } else if share < 25 { "<25%" } else if share < 75 { "25-75%" } else { ">=75%" }));
    if forced > 0 {
        let mut rep = RunReport { verdict: Verdict::Inconclusive("free-running: a consumer did not end after cancel_all_streams within 10 s (forced out)".into()), nontrivial: false, classes, fingerprint: fp, trace: None, summary: sample };
        rep.classes.push("forced-exit".into());
        return rep;
    }
    if timed_out > 0 { classes.push("coordinator-stopped-waiting".into()); }
    if gave_up > 0 { classes.push("producer-gave-up-retrying".into()); }
    let nontrivial = match focus {
        Focus::Fifo => ov > 0 && (rejected > 0 || pendings > 0),
        Focus::Wakeup => ov > 0 && parks > 0,
        _ => ov > 0,
    };
    RunReport { verdict: Verdict::Pass, nontrivial, classes, fingerprint: fp, trace: None, summary: sample }
}

const LIVE_RERUNS: u32 = 40;
pub fn replay_live(case: &ChanFreeCase, focus: Focus) -> RunReport {
    let mut note = String::new();
    if case.recorded.is_some() {
        let r = report(case, focus);
        note = match &r.verdict {
            Verdict::Violation { signature, .. } => format!("the recorded execution violates the property ({signature}); "),
            _ => "the recorded execution passes the oracle; ".to_string(),
        };
    }
    let mut live = case.clone();
    live.recorded = None;
    // (the waiting path of the Arc kinds costs the library's 500 ms sleeps: few rounds, few re-executions)
    let slow = live.slow_consumer.is_some();
    live.rounds = if live.kind.is_mmap() { 3 } else if slow { 2 } else { live.rounds.max(100) };
    for i in 0..(if slow { 6 } else { LIVE_RERUNS }) {
        let mut r = std::panic::catch_unwind(std::panic::AssertUnwindSafe(|| report(&live, focus))).unwrap_or_else(|_| RunReport::pass());
        if let Verdict::Violation { signature, detail } = r.verdict {
            r.verdict = Verdict::Violation { signature, detail: format!("{note}reproduced live in re-execution #{}: {detail}", i + 1) };
            return r;
        }
    }
    let mut r = RunReport::pass();
    r.summary = format!("{note}not reproduced in {} live re-executions ({} rounds each) of the workload on the current tree", LIVE_RERUNS, live.rounds);
    r
}

// ---------------------------------------------------------------------------------------------------------------------
// generation

pub fn case_strategy(kinds: &'static [ChanKind], driven: Option<bool>) -> BoxedStrategy<ChanFreeCase> {
    (any::<u16>(), any::<u16>(), any::<u16>(), any::<u16>()).prop_flat_map(move |(ki, ci, ni, oi)| {
        let kind = pick(kinds, ki);
        // the Arc-based Multi kinds wait (sleep) when a listener queue is full: large buffers, fewer events than the buffer holds
        let configs: Vec<(u8, u8)> = chan::CONFIGS.iter().copied().filter(|(b, m)| if kind.waits_when_full() { *b >= 16 } else if kind.is_mmap() { *b >= 4 || *m == 2 } else { true }).collect();
        let (buffer, max_streams) = pick(&configs, ci);
        let consumers = 1 + ((ni as usize * (max_streams.min(4) as usize)) >> 16) as u8;
        let max_total: u16 = if kind.waits_when_full() { buffer as u16 - 1 } else { 160 };
        let entries = kind.entries();
        let nprod = 1usize..=4;
        let origin = if oi < 45000 || kind.is_mmap() { 0 } else { u32::MAX - (oi as u32 % 96) };
        // Arc-based Multi kinds, 1 case in 6: a small buffer, MORE events than it holds and one slow listener (the last one), so that the sender meets
        // a full listener queue while listeners before it have room -- the documented waiting path (500 ms sleeps: few events, one round)
        let full_arc = kind.waits_when_full() && oi % 6 == 0;
        let (buffer, max_streams, consumers, max_total) = if full_arc { let b = if ni % 2 == 0 { 2u8 } else { 4u8 }; (b, b, 2 + (ni % 2) as u8 * (b / 4), b as u16 + 1 + (ci % 3)) } else { (buffer, max_streams, consumers, max_total) };
        (Just(kind), Just(buffer), Just(max_streams), Just(consumers), Just(origin), Just(max_total), Just(full_arc),
         proptest::collection::vec((any::<u16>(), 1u16..=40), nprod).prop_map(move |ps| ps.into_iter().map(|(e, n)| Prod { entry: pick(&entries, e), events: n }).collect::<Vec<_>>()),
         any::<bool>(), prop_oneof![Just(0u16), Just(0u16), Just(8u16), Just(64u16), Just(400u16)], 20u16..=60)
    }).prop_map(move |(kind, buffer, max_streams, consumers, origin, max_total, full_arc, mut producers, drv, hold, rounds)| {
        // keep the total below the bound (waiting kinds)
        let mut total: u16 = producers.iter().map(|p| p.events).sum();
        while total > max_total {
            for p in producers.iter_mut() { if total > max_total && p.events > 0 { p.events -= 1; total -= 1; } }
        }
        producers.retain(|p| p.events > 0);
        if producers.is_empty() { producers.push(Prod { entry: Entry::Send, events: 1 }); }
        // (every mmap log channel maps a large region of address space: few live at a time)
        let rounds = if kind.is_mmap() { 3 } else if full_arc { 1 } else { rounds };
        if full_arc { producers.truncate(2); }
        let slow_consumer = if full_arc { Some(consumers - 1) } else { None };
        ChanFreeCase { kind, buffer, max_streams, origin, producers, consumers, driven: driven.unwrap_or(drv), hold, rounds, slow_consumer, recorded: None }
    }).boxed()
}

const RULE_COMMON: &str = "free-running (real OS threads at full speed, no scheduler; the OS owns the interleaving, so a case is a workload, not an execution): channel kind x (BUFFER_SIZE, MAX_STREAMS) from the menu {(2,1),(2,2),(4,1),(4,2),(4,4),(8,2),(8,4),(16,16),(64,8)} \
 [Arc-based Multi kinds: buffer >= 16 and fewer events than the buffer holds, they wait when full -- except 1 case in 6: BUFFER_SIZE 2 / 4, 1..3 events more than it holds, the last of 2..3 listeners sleeping 2 ms per item, one round: the documented waiting path] x sequence origin {0 | within 96 of the u32 wrap} x 1..4 producer threads each sending 1..40 events through one entry point \
 (send, send_with, send_with_async whose setter suspends 0..2 times, reserve_slot+try_send_reserved, send_derived), retrying a rejected send with a fresh payload value until accepted x 1..min(MAX_STREAMS,4) consumer threads (Uni: streams; Multi: listeners created up front) \
 that either poll in a loop or park on Pending until the waker the channel holds is invoked, keeping each item for {0,8,64,400} spins before releasing it x 20..60 executions (rounds) per case on fresh channels, threads started together through a spin barrier; \
 after the producers have returned the coordinator waits for the deliveries, calls cancel_all_streams() and the consumers poll until end-of-stream; then streams and channel are dropped; \
 every call / return / release stamped from one global atomic counter (A precedes B only if A.ret < B.call); wall-clock time only bounds waiting (inconclusive), never decides";

macro_rules! free_part {
    ($ty:ident, $name:expr, $kinds:expr, $focus:expr, $driven:expr, $quick:expr, $thorough:expr, $oracle:expr) => {
        pub struct $ty;
        impl Property for $ty {
            type Case = ChanFreeCase;
            fn part(&self) -> &'static str { $name }
            fn strategy(&self, _tier: Tier) -> BoxedStrategy<ChanFreeCase> { case_strategy($kinds, $driven) }
            fn cases(&self, tier: Tier) -> u32 { match tier { Tier::Quick => $quick, Tier::Thorough => $thorough } }
            fn run(&self, case: &ChanFreeCase) -> RunReport { report(case, $focus) }
            fn replay(&self, case: &ChanFreeCase) -> RunReport { replay_live(case, $focus) }
            fn rule(&self) -> String { format!("{RULE_COMMON}; oracle: {}", $oracle) }
        }
    }
}

static PAYLOAD_KINDS: [ChanKind; 10] = [ChanKind::UniMoveAtomic, ChanKind::UniMoveFullSync, ChanKind::UniMoveCrossbeam, ChanKind::UniZcAtomic, ChanKind::UniZcFullSync,
                                        ChanKind::MultiArcAtomic, ChanKind::MultiArcFullSync, ChanKind::MultiArcCrossbeam, ChanKind::MultiOgreAtomic, ChanKind::MultiOgreFullSync];

free_part!(C01Free, "uni-delivery-free", &chan::UNI_KINDS, Focus::Delivery, None, 1_200, 16_000,
    "every send kept its contract (accepted: setter ran exactly once; rejected: the payload / setter handed back is the caller's, un-invoked); every yielded payload is intact and was accepted (never a rejected or an invented one, never before its send started); none yielded twice across all streams; every accepted one yielded by the time the streams ended; non-trivial: a send really overlapped an operation of another thread");
free_part!(C02Free, "uni-fifo-free", &chan::UNI_KINDS, Focus::Fifo, None, 1_200, 16_000,
    "every stream yields one producer's events in send order; FIFO pattern across all streams (a accepted wholly before b's send started, yet b received wholly before a's receive started); no Pending answer while an accepted event was inside during the whole poll; a rejection only if BUFFER_SIZE slots could have been taken at some instant of the call (an event occupies from the call of its send to the return of its receive -- pooled kinds: of its release --, sends in progress count); never more than BUFFER_SIZE definitely inside; pending_items_count() == 0 after everything was received; non-trivial: real overlap AND a rejected send or a Pending answer occurred");
free_part!(C03Free, "multi-fanout-free", &chan::MULTI_KINDS, Focus::Fanout, None, 1_200, 16_000,
    "per listener: every accepted event yielded exactly once (none missing when the listener ended, none twice, none invented / rejected / corrupted), one producer's events in send order; all listeners observe the same payload address for the same event; non-trivial: real overlap");
free_part!(C04Free, "wakeup-free", &chan::ALL_KINDS, Focus::Wakeup, Some(true), 1_600, 20_000,
    "consumers are driven: poll, park on Pending, re-poll when the waker is invoked. Lost wake-up = after every producer has returned, every consumer is parked on a waker nobody has invoked since its last poll while accepted events it is entitled to are undelivered (decided, not timed: nothing can run any more); non-trivial: real overlap AND a consumer actually parked");
free_part!(C05Free, "payload-life-free", &PAYLOAD_KINDS, Focus::PayloadLife, None, 1_200, 16_000,
    "Tracked payloads (destructor reports to a ledger, canary): a payload is intact when yielded and still intact right before its handle is released; two different events held at overlapping times never share an address; no destructor ran on garbage; nothing destroyed twice; once delivered and every handle released the destructor has run exactly once (checked when the streams are dropped), every accepted payload exactly once by the time the channel is gone, rejected payloads (kept by the harness) never; non-trivial: real overlap");
