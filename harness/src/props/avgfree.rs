//! E5 for the incremental-average metric (C19): free-running recorder threads + a reader on real OS threads, including runs whose
//! count crosses 2^24 (where `count as f32` stops being exact -- far below the documented u32::MAX reset).
//!
//! Oracles that are sound whatever the OS does: recorders bump a per-thread `started` counter before and a `done` counter after every
//! `inc()`; a probe's count must lie between the sum of `done` read before the probe and the sum of `started` read after it, and must
//! never go back from one probe of the (single) reader to the next; the final count equals the number of recorded measurements exactly.
//! Pair consistency (count and average from the same update): with one recorder recording +K, -K, +K, ... the average after n
//! measurements is K/n for odd n and 0 for even n, so the parity of a probe's count decides which of the two its average must be near.

use crate::driver::{freeze_case, Property, RunReport, Tier, Verdict};
use proptest::prelude::*;
use serde::{Deserialize, Serialize};
use std::sync::atomic::{AtomicBool, AtomicU64, AtomicUsize, Ordering::SeqCst};
use std::sync::Arc;

#[derive(Clone, Copy, Debug, PartialEq, Serialize, Deserialize)]
pub enum Values {
    /// every measurement is this value (-1.0 is the 'no timing' sentinel the executors record)
    Constant(f32),
    /// +K, -K, +K, ... (one recorder only)
    Alternating(f32),
}

#[derive(Clone, Debug, Serialize, Deserialize)]
pub struct AvgFreeCase {
    pub recorders:  u8,
    pub per_thread: u32,
    pub values:     Values,
    pub rounds:     u16,
    /// verdict of a violating execution (executions are not reproducible from the case)
    #[serde(default)]
    pub recorded:   Option<(String, String)>,
}

struct Sem { m: std::sync::Mutex<usize>, cv: std::sync::Condvar }
static SEM: Sem = Sem { m: std::sync::Mutex::new(0), cv: std::sync::Condvar::new() };
const SLOTS: usize = 3;
struct Permit;
fn acquire() -> Permit { let mut g = SEM.m.lock().unwrap(); while *g >= SLOTS { g = SEM.cv.wait(g).unwrap(); } *g += 1; Permit }
impl Drop for Permit { fn drop(&mut self) { *SEM.m.lock().unwrap() -= 1; SEM.cv.notify_one(); } }

#[derive(Default)]
pub struct Stats { pub probes: u64, pub probes_mid_run: u64, pub crossed_2_24: bool }

fn one_round(case: &AvgFreeCase, stats: &mut Stats) -> Option<(String, String)> {
    use reactive_mutiny::stream_executor::StreamExecutor;
    let exec = StreamExecutor::<0>::new("rmv");
    let n = case.recorders.max(1) as usize;
    let per = case.per_thread as u64;
    let total = per * n as u64;
    let started: Vec<AtomicU64> = (0..n).map(|_| AtomicU64::new(0)).collect();
    let done: Vec<AtomicU64> = (0..n).map(|_| AtomicU64::new(0)).collect();
    let arrived = AtomicUsize::new(0);
    let finished = AtomicBool::new(false);
    let mut verdict: Option<(String, String)> = None;
    // (the f32 recurrence drifts over millions of updates -- 1.4e-3 relative was seen after 1.4 M equal measurements --: 'within floating-point
    //  tolerance' is only judged on short runs; long runs are judged on their counts)
    let check_avg = total <= 100_000;
    let (mut probes, mut mid) = (0u64, 0u64);
    std::thread::scope(|scope| {
        for t in 0..n {
            let (exec, started, done, arrived) = (&exec, &started, &done, &arrived);
            let values = case.values;
            scope.spawn(move || {
                arrived.fetch_add(1, SeqCst);
                while arrived.load(SeqCst) < n + 1 { std::hint::spin_loop(); }
                for i in 0..per {
                    let m = match values { Values::Constant(v) => v, Values::Alternating(k) => if i % 2 == 0 { k } else { -k } };
                    started[t].store(i + 1, SeqCst);
                    exec.ok_events_avg_future_duration.inc(m);
                    done[t].store(i + 1, SeqCst);
                }
            });
        }
        // the reader (this thread)
        arrived.fetch_add(1, SeqCst);
        while arrived.load(SeqCst) < n + 1 { std::hint::spin_loop(); }
        let mut last = 0u32;
        loop {
            let all_done = done.iter().map(|d| d.load(SeqCst)).sum::<u64>() >= total;
            let lo: u64 = done.iter().map(|d| d.load(SeqCst)).sum();
            let (c, a) = exec.ok_events_avg_future_duration.probe();
            let hi: u64 = started.iter().map(|s| s.load(SeqCst)).sum();
            probes += 1;
            if lo > 0 && lo < total { mid += 1; }
            if verdict.is_none() {
                if (c as u64) < lo || (c as u64) > hi {
                    verdict = Some(("average-free/count-out-of-bounds".into(), format!("a reading returned count {c} although {lo} measurements had been completely recorded before it started and only {hi} had been started when it returned ({n} recorders x {per} measurements, {:?})", case.values)));
                } else if c < last {
                    verdict = Some(("average-free/count-went-back".into(), format!("consecutive readings returned count {last} and then {c} ({n} recorders x {per} measurements, {:?})", case.values)));
                } else if c > 0 && check_avg {
                    match case.values {
                        Values::Constant(v) => if (a - v).abs() > 1e-3 * v.abs().max(1.0) {
                            verdict = Some(("average-free/wrong-mean".into(), format!("every measurement is {v}, yet a reading returned (count {c}, average {a})")));
                        },
                        Values::Alternating(k) => {
                            let odd = k / c as f32;
                            let near_odd = (a - odd).abs() < a.abs();
                            // (only judged where the two candidates are far apart compared with the accumulated rounding error)
                            if odd.abs() > 40.0 && (near_odd != (c % 2 == 1)) {
                                verdict = Some(("average-free/inconsistent-probe".into(), format!("one recorder records +{k}, -{k}, ...: after n measurements the average is {k}/n for odd n and 0 for even n; a reading returned (count {c}, average {a}) -- the average of a different update than the count")));
                            }
                        },
                    }
                }
            }
            last = last.max(c);
            if all_done { break; }
        }
        finished.store(true, SeqCst);
    });
    stats.probes += probes;
    stats.probes_mid_run += mid;
    if total > (1 << 24) { stats.crossed_2_24 = true; }
    if verdict.is_some() { return verdict; }
    let (fc, fa) = exec.ok_events_avg_future_duration.probe();
    if fc as u64 != total {
        return Some(("average-free/lost-update".into(), format!("{total} measurements were recorded ({n} recorders x {per}, {:?}; far below u32::MAX) but the final count is {fc}", case.values)));
    }
    let want = match case.values { Values::Constant(v) => v, Values::Alternating(k) => if total % 2 == 1 { k / total as f32 } else { 0.0 } };
    let tol = match case.values { Values::Constant(v) => 1e-3 * v.abs().max(1.0), Values::Alternating(k) => 1e-3 * k.abs().max(1.0) };
    if total > 0 && check_avg && (fa - want).abs() > tol {
        return Some(("average-free/wrong-mean".into(), format!("final average {fa}, but the arithmetic mean of the {total} measurements ({:?}) is {want}", case.values)));
    }
    None
}

pub fn report(case: &AvgFreeCase) -> RunReport {
    let big = case.per_thread as u64 * case.recorders as u64 > (1 << 24);
    let mut classes = vec![format!("recorders:{}", case.recorders), format!("values:{}", match case.values { Values::Constant(v) if v < 0.0 => "constant(-1 sentinel)", Values::Constant(_) => "constant", Values::Alternating(_) => "alternating(+K,-K)" })];
    if big { classes.push("count-crosses-2^24".into()); }
    if let Some((signature, detail)) = &case.recorded {
        return RunReport { verdict: Verdict::Violation { signature: signature.clone(), detail: format!("recorded execution: {detail}") }, nontrivial: true, classes, fingerprint: 0, trace: None, summary: detail.clone() };
    }
    let _permit = acquire();
    let mut stats = Stats::default();
    for r in 0..case.rounds.max(1) {
        if let Some((signature, detail)) = one_round(case, &mut stats) {
            let mut frozen = case.clone();
            frozen.recorded = Some((signature.clone(), detail.clone()));
            freeze_case(&frozen);
            return RunReport { verdict: Verdict::Violation { signature, detail: format!("free-running, round {r}: {detail}") }, nontrivial: true, classes, fingerprint: 0, trace: None, summary: detail };
        }
    }
    if stats.probes_mid_run > 0 { classes.push("readings-while-recording".into()); }
    let fingerprint = { use std::hash::{Hash, Hasher}; let mut h = std::collections::hash_map::DefaultHasher::new(); format!("{case:?}{}", stats.probes_mid_run).hash(&mut h); h.finish() };
    let summary = format!("{} rounds of {} recorders x {} measurements {:?}; {} readings, {} of them while recording was in progress", case.rounds, case.recorders, case.per_thread, case.values, stats.probes, stats.probes_mid_run);
    RunReport { verdict: Verdict::Pass, nontrivial: stats.probes_mid_run > 0 && (case.recorders > 1 || matches!(case.values, Values::Alternating(_))), classes, fingerprint, trace: None, summary }
}

pub struct C19Free;
impl Property for C19Free {
    type Case = AvgFreeCase;
    fn part(&self) -> &'static str { "average-free" }
    fn strategy(&self, _tier: Tier) -> BoxedStrategy<AvgFreeCase> {
        let small_const = (2u8..=4, 50u32..3000, prop_oneof![Just(-1.0f32), Just(0.5f32), Just(3.0f32), Just(1024.0f32)], 10u16..40)
            .prop_map(|(recorders, per_thread, v, rounds)| AvgFreeCase { recorders, per_thread, values: Values::Constant(v), rounds, recorded: None });
        let alternating = (50u32..20_000, prop_oneof![Just(1.0e6f32), Just(4.0e6f32)], 10u16..40)
            .prop_map(|(per_thread, k, rounds)| AvgFreeCase { recorders: 1, per_thread, values: Values::Alternating(k), rounds, recorded: None });
        let big = (2u8..=4, 1000u32..9000, prop_oneof![Just(-1.0f32), Just(3.0f32)])
            .prop_map(|(recorders, extra, v)| AvgFreeCase { recorders, per_thread: (1u32 << 24) / recorders as u32 + extra, values: Values::Constant(v), rounds: 1, recorded: None });
        prop_oneof![30 => small_const, 30 => alternating, 1 => big].boxed()
    }
    fn cases(&self, tier: Tier) -> u32 { match tier { Tier::Quick => 320, Tier::Thorough => 4_000 } }
    fn run(&self, case: &AvgFreeCase) -> RunReport { report(case) }
    fn replay(&self, case: &AvgFreeCase) -> RunReport {
        let mut live = case.clone();
        live.recorded = None;
        let note = case.recorded.as_ref().map(|r| format!("recorded execution: {} ({}); ", r.0, r.1)).unwrap_or_default();
        for i in 0..20 {
            let mut r = report(&live);
            if let Verdict::Violation { signature, detail } = r.verdict { r.verdict = Verdict::Violation { signature, detail: format!("{note}reproduced live in re-execution #{}: {detail}", i + 1) }; return r; }
        }
        let mut r = RunReport::pass();
        r.summary = format!("{note}not reproduced in 20 live re-executions of the workload on the current tree");
        r
    }
    fn rule(&self) -> String {
        "free-running (real OS threads, no scheduler) on a StreamExecutor's public ok_events_avg_future_duration metric: {2..4 recorders x 50..2999 measurements of one constant value (-1 sentinel, 0.5, 3, 1024), 10..39 rounds | 1 recorder x 50..19999 measurements +K, -K, +K, ... (K 1e6 / 4e6), 10..39 rounds | 2..4 recorders whose measurements add up to 2^24 + 2000..36000 (1 round; ~1 in 60 cases)} while the case's own thread reads continuously; \
         oracle: every reading's count lies between the measurements completely recorded before the reading started and those started when it returned (per-thread started / done counters), never goes back between consecutive readings, and the final count equals the number of measurements exactly; constant values (runs of at most 100 000 measurements: the f32 recurrence drifts over millions of updates, long runs are judged on their counts only): every reading's average is that value (1e-3); alternating values: the average belonging to count n is K/n (n odd) or 0 (n even), so the parity of a reading's count must match the candidate its average is nearer to (judged while K/n > 40); final average = arithmetic mean; \
         non-trivial: readings happened while recording was in progress AND (several recorders collided OR the pair-consistency oracle applied)".into()
    }
}
