//! E5: free-running executions on real OS threads (no scheduler: the `verif` shim is a pass-through on these threads).
//!
//! Adds what the controlled scheduler cannot reach: real parallelism (x86-TSO behaviours, races inside sections that hold no
//! scheduling point) and the containers whose synchronisation is not instrumented (the parking-lot stack's mutex).
//! Every operation is stamped at its call and at its return from one global atomic counter; `A` precedes `B` only if
//! `A.ret < B.call`, so every oracle below is sound whatever the OS does (timing only decides how much overlap a case gets).
//!
//! Two modes per case:
//! * `Burst`: 2..4 threads run short scripts against a fresh container, started together through a spin barrier, many rounds per
//!   case; every round's history is decided exactly by the linearizability search of `lin.rs` (same oracle as the controlled parts).
//! * `Long`: 2..8 threads x hundreds..thousands of operations drawn from per-thread PRNGs; decided by checks that are sound and
//!   cheap on long histories: conservation (nothing lost / duplicated / invented / corrupted, final drain included), the interval
//!   rules for "nothing" and "full" answers (5.3), FIFO order patterns (queues) / LIFO order pattern (stacks), reported length at the end.
//!
//! An execution is not reproducible from its case (the OS owns the schedule). A violating execution is therefore *frozen*: its
//! recorded history is stored inside the case (`recorded`), and running a case that carries a recorded history re-judges that
//! history instead of executing -- this is what the replay file contains and what `./check.sh replay` re-checks.

use crate::driver::{freeze_case, pick, Property, RunReport, Tier, Verdict};
use crate::lin::{Act, Op};
use crate::payload;
use crate::props::containers::{self, Container, Kind, Step};
use crate::sched::{EndState, Schedule};
use proptest::prelude::*;
use serde::{Deserialize, Serialize};
use std::collections::HashMap;
use std::sync::atomic::{AtomicU64, AtomicUsize, Ordering::SeqCst};
use std::sync::{Arc, Condvar, Mutex};

#[derive(Clone, Debug, Serialize, Deserialize)]
pub enum Mode {
    Burst { scripts: Vec<Vec<Step>>, prefill: u8, rounds: u16 },
    Long { threads: u8, ops: u32, put_per_256: Vec<u8>, seed: u64 },
}

#[derive(Clone, Debug, Serialize, Deserialize)]
pub struct Recorded {
    pub ops:        Vec<Op>,
    pub prefill:    Vec<u64>,
    pub drained:    Vec<u64>,
    pub len_at_end: usize,
    /// which round of a burst case this is
    pub round:      u32,
}

#[derive(Clone, Debug, Serialize, Deserialize)]
pub struct FreeCase {
    pub kind: Kind,
    pub cap:  u8,
    pub mode: Mode,
    /// the history of a violating execution (see the module comment): when present the case is re-judged, not re-executed
    #[serde(default)]
    pub recorded: Option<Recorded>,
}

// ---------------------------------------------------------------------------------------------------------------------
// at most `SLOTS` free-running cases execute at a time (each occupies up to 8 cores)

struct Sem { m: Mutex<usize>, cv: Condvar }
static SEM: Sem = Sem { m: Mutex::new(0), cv: Condvar::new() };
const SLOTS: usize = 4;
struct Permit;
fn acquire() -> Permit { let mut g = SEM.m.lock().unwrap(); while *g >= SLOTS { g = SEM.cv.wait(g).unwrap(); } *g += 1; Permit }
impl Drop for Permit { fn drop(&mut self) { *SEM.m.lock().unwrap() -= 1; SEM.cv.notify_one(); } }

fn xorshift(s: &mut u64) -> u64 { let mut x = *s; x ^= x << 13; x ^= x >> 7; x ^= x << 17; *s = x; x.wrapping_mul(0x2545F4914F6CDD1D) }

fn spin_until(counter: &AtomicUsize, target: usize) {
    let mut spins = 0u32;
    while counter.load(SeqCst) < target {
        spins += 1;
        if spins % 256 == 0 { std::thread::yield_now(); } else { std::hint::spin_loop(); }
    }
}

// ---------------------------------------------------------------------------------------------------------------------
// execution

fn run_burst(kind: Kind, cap: usize, scripts: &[Vec<Step>], prefill: u8, rounds: usize) -> Vec<Recorded> {
    let n = scripts.len();
    let clock = AtomicU64::new(1);
    let mut containers_: Vec<Arc<dyn Container>> = vec![];
    let mut prefills: Vec<Vec<u64>> = vec![];
    for _ in 0..rounds {
        let c = containers::make(kind, cap);
        let mut pf = vec![];
        for i in 0..prefill.min(cap as u8) { let v = payload::plain(200, i as u32); if c.put(v) { pf.push(v); } }
        containers_.push(c);
        prefills.push(pf);
    }
    let arrived = AtomicUsize::new(0);
    let mut logs: Vec<Vec<(u32, Op)>> = vec![];
    std::thread::scope(|scope| {
        let handles: Vec<_> = scripts.iter().enumerate().map(|(t, script)| {
            let (clock, arrived, containers_) = (&clock, &arrived, &containers_);
            scope.spawn(move || {
                let mut log: Vec<(u32, Op)> = Vec::with_capacity(rounds * script.len());
                let mut seq = 0u32;
                for r in 0..rounds {
                    arrived.fetch_add(1, SeqCst);
                    spin_until(arrived, (r + 1) * n);
                    let c = &containers_[r];
                    for step in script {
                        let call = clock.fetch_add(1, SeqCst);
                        let act = match step {
                            Step::Put => { seq += 1; let v = payload::plain(t as u8, seq); Act::Put { v, ok: c.put(v) } },
                            Step::Get => Act::Get { got: c.get() },
                        };
                        let ret = clock.fetch_add(1, SeqCst);
                        log.push((r as u32, Op { thread: t as u8, act, call, ret }));
                    }
                }
                log
            })
        }).collect();
        for h in handles { logs.push(h.join().unwrap_or_default()); }
    });
    let mut out: Vec<Recorded> = (0..rounds).map(|r| Recorded { ops: vec![], prefill: prefills[r].clone(), drained: vec![], len_at_end: 0, round: r as u32 }).collect();
    for log in logs { for (r, op) in log { out[r as usize].ops.push(op); } }
    for (r, c) in containers_.iter().enumerate() {
        out[r].len_at_end = c.len();
        while let Some(v) = c.get() { out[r].drained.push(v); if out[r].drained.len() > 4 * cap + 8 { break; } }
    }
    out
}

fn run_long(kind: Kind, cap: usize, threads: usize, ops: usize, put_per_256: &[u8], seed: u64) -> Recorded {
    let clock = AtomicU64::new(1);
    let c = containers::make(kind, cap);
    let arrived = AtomicUsize::new(0);
    let mut all: Vec<Op> = Vec::with_capacity(threads * ops);
    std::thread::scope(|scope| {
        let handles: Vec<_> = (0..threads).map(|t| {
            let (clock, arrived, c) = (&clock, &arrived, &c);
            let bias = put_per_256[t % put_per_256.len()] as u64;
            scope.spawn(move || {
                let mut rng = seed ^ ((t as u64 + 1).wrapping_mul(0x9E3779B97F4A7C15)) | 1;
                let mut log: Vec<Op> = Vec::with_capacity(ops);
                let mut seq = 0u32;
                arrived.fetch_add(1, SeqCst);
                spin_until(arrived, threads);
                for _ in 0..ops {
                    let put = (xorshift(&mut rng) >> 24) & 255 < bias;
                    let call = clock.fetch_add(1, SeqCst);
                    let act = if put { seq += 1; let v = payload::plain(t as u8, seq); Act::Put { v, ok: c.put(v) } } else { Act::Get { got: c.get() } };
                    let ret = clock.fetch_add(1, SeqCst);
                    log.push(Op { thread: t as u8, act, call, ret });
                }
                log
            })
        }).collect();
        for h in handles { all.extend(h.join().unwrap_or_default()); }
    });
    let len_at_end = c.len();
    let mut drained = vec![];
    while let Some(v) = c.get() { drained.push(v); if drained.len() > 4 * cap + 8 { break; } }
    Recorded { ops: all, prefill: vec![], drained, len_at_end, round: 0 }
}

// ---------------------------------------------------------------------------------------------------------------------
// oracles

/// exact: the linearizability search + interval rules of the controlled parts (histories of <= 64 operations)
fn judge_burst(kind: Kind, cap: u8, r: &Recorded) -> Option<(String, String)> {
    let case = containers::Case { kind, cap, origin: 0, prefill: r.prefill.len() as u8, threads: vec![], schedule: Schedule::Sparse(vec![]) };
    let x = containers::Executed { ops: r.ops.clone(), end: EndState::Completed, trace: vec![], inside: 0, len_at_end: r.len_at_end, drained: r.drained.clone(), prefill: r.prefill.clone() };
    containers::judge(&case, &x).map(|(s, d)| (format!("free/{s}"), format!("free-running burst, round {}: {d}", r.round)))
}

/// sound checks for long histories
pub fn judge_long(kind: Kind, cap: usize, r: &Recorded) -> Option<(String, String)> { judge_long_labelled(&format!("free/{:?}", kind), kind.is_stack(), cap, r) }

/// the same checks for any bounded container whose history is given as insertions / removals (`k`: signature prefix)
pub fn judge_long_labelled(k: &str, is_stack: bool, cap: usize, r: &Recorded) -> Option<(String, String)> {
    let last = r.ops.iter().map(|o| o.ret).max().unwrap_or(0) + 1;
    let mut put: HashMap<u64, &Op> = HashMap::new();
    let mut got: HashMap<u64, (u64, u64, u8)> = HashMap::new();      // value -> (call, ret, thread) of its removal
    for o in &r.ops {
        match o.act {
            Act::Put { v, ok: true } => { put.insert(v, o); },
            Act::Get { got: Some(v) } => {
                if payload::decode(v).is_none() { return Some((format!("{k}/corrupt-value"), format!("thread {} obtained a corrupted value {v:#x}", o.thread))); }
                if let Some(prev) = got.insert(v, (o.call, o.ret, o.thread)) {
                    return Some((format!("{k}/duplicated"), format!("{} was obtained twice: by thread {} over [{},{}] and by thread {} over [{},{}]", payload::show(v), prev.2, prev.0, prev.1, o.thread, o.call, o.ret)));
                }
            },
            _ => {},
        }
    }
    let mut t = last;
    for v in &r.drained {
        if payload::decode(*v).is_none() { return Some((format!("{k}/corrupt-value"), format!("the final drain obtained a corrupted value {v:#x}"))); }
        if let Some(prev) = got.insert(*v, (t, t + 1, 250)) {
            return Some((format!("{k}/duplicated"), format!("{} was obtained twice: by thread {} over [{},{}] and again by the final drain", payload::show(*v), prev.2, prev.0, prev.1)));
        }
        t += 2;
    }
    for (v, g) in &got {
        match put.get(v) {
            None => return Some((format!("{k}/invented"), format!("{} was obtained (thread {}) but never inserted", payload::show(*v), g.2))),
            Some(p) => if g.1 < p.call { return Some((format!("{k}/invented"), format!("{} was obtained over [{},{}] before its insertion started at {}", payload::show(*v), g.0, g.1, p.call))); },
        }
    }
    if let Some((v, p)) = put.iter().find(|(v, _)| !got.contains_key(*v)) {
        return Some((format!("{k}/lost"), format!("{} was inserted (thread {}, [{},{}]) and never came out, not even in the final drain ({} inserted, {} obtained)", payload::show(*v), p.thread, p.call, p.ret, put.len(), got.len())));
    }
    if r.drained.len() != r.len_at_end {
        return Some((format!("{k}/len-at-quiescence"), format!("reported length {} at quiescence, but {} elements could be taken out", r.len_at_end, r.drained.len())));
    }
    // "nothing" answers: illegitimate if some element was inside during the whole call (inserted by a call that had returned before, removal not even started before the return)
    {
        let mut definite: Vec<(u64, u64, u64)> = put.iter().map(|(v, p)| (p.ret, got[v].0, *v)).collect();     // (inside from, inside until, value)
        definite.sort();
        let mut best: Vec<(u64, u64)> = Vec::with_capacity(definite.len());     // prefix maximum of `until` (with its value)
        let mut cur = (0u64, 0u64);
        for (_, until, v) in &definite { if *until > cur.0 { cur = (*until, *v); } best.push(cur); }
        for o in &r.ops {
            if let Act::Get { got: None } = o.act {
                let idx = definite.partition_point(|d| d.0 < o.call);
                if idx > 0 && best[idx - 1].0 > o.ret {
                    let v = best[idx - 1].1;
                    return Some((format!("{k}/false-empty"), format!("thread {} was answered 'nothing' over [{},{}] although {} was inside during the whole call (its insertion returned at {}, its removal started at {})",
                                                                    o.thread, o.call, o.ret, payload::show(v), put[&v].ret, got[&v].0)));
                }
            }
        }
    }
    // "full" answers: legitimate iff at some instant of the call `cap` slots could have been taken (an element possibly occupies from the call of
    // its insertion to the return of its removal; other rejected insertions in progress count too)
    {
        let size = (last + 2) as usize;
        let mut diff = vec![0i32; size + 1];
        for (v, p) in &put { let to = got[v].1.min(last); diff[p.call as usize] += 1; diff[to as usize + 1] -= 1; }
        for o in &r.ops { if let Act::Put { ok: false, .. } = o.act { diff[o.call as usize] += 1; diff[o.ret as usize + 1] -= 1; } }
        let mut occ = vec![0i32; size + 1];
        let mut run = 0;
        for i in 0..=size { run += diff[i]; occ[i] = run; }
        for o in &r.ops {
            if let Act::Put { ok: false, v } = o.act {
                let max = (o.call..=o.ret).map(|t| occ[t as usize]).max().unwrap_or(0) - 1;      // (minus the call itself)
                if max < cap as i32 {
                    return Some((format!("{k}/spurious-full"), format!("thread {} was answered 'full' for {} over [{},{}] although at most {max} of {cap} slots could have been taken at any instant of the call", o.thread, payload::show(v), o.call, o.ret)));
                }
            }
        }
        // never more than `cap` definitely inside
        let mut events: Vec<(u64, i32)> = vec![];
        for (v, p) in &put { events.push((p.ret, 1)); events.push((got[v].0, -1)); }
        events.sort();
        let mut inside = 0;
        for (at, d) in events { inside += d; if inside > cap as i32 { return Some((format!("{k}/over-capacity"), format!("{inside} elements were inside at instant {at} with capacity {cap}"))); } }
    }
    // order
    let mut vals: Vec<(u64, u64, u64, u64, u64)> = put.iter().map(|(v, p)| (p.call, p.ret, got[v].0, got[v].1, *v)).collect();   // (put call, put ret, get call, get ret, v)
    vals.sort();
    if !is_stack {
        // FIFO: put(a) wholly before put(b), yet get(b) wholly before get(a)
        let mut by_put_ret: Vec<(u64, u64, u64)> = vals.iter().map(|x| (x.1, x.2, x.4)).collect();      // (put ret, get call, v)
        by_put_ret.sort();
        let mut j = 0;
        let mut latest_get_call = (0u64, 0u64);
        for b in &vals {
            while j < by_put_ret.len() && by_put_ret[j].0 < b.0 { if by_put_ret[j].1 > latest_get_call.0 { latest_get_call = (by_put_ret[j].1, by_put_ret[j].2); } j += 1; }
            if latest_get_call.0 > b.3 && latest_get_call.1 != b.4 {
                let a = latest_get_call.1;
                return Some((format!("{k}/order"), format!("{} was inserted (returned at {}) before the insertion of {} started (at {}), yet {} was removed over [{},{}], wholly before the removal of {} started (at {})",
                                                           payload::show(a), put[&a].ret, payload::show(b.4), b.0, payload::show(b.4), b.2, b.3, payload::show(a), latest_get_call.0)));
            }
        }
    } else if vals.len() <= 3000 {
        // LIFO: a inserted wholly before b, b inside during the whole removal of a (a was still inside when b went in) => b lies above a: a cannot come out
        for a in &vals {
            for b in &vals {
                if a.1 < b.0 && a.2 > b.1 && a.3 < b.2 {
                    return Some((format!("{k}/order"), format!("{} was pushed (returned at {}) before the push of {} started ({}..{}); {} was popped over [{},{}] while {} -- above it -- stayed inside until its pop started at {}",
                                                               payload::show(a.4), a.1, payload::show(b.4), b.0, b.1, payload::show(a.4), a.2, a.3, payload::show(b.4), b.2)));
                }
            }
        }
    }
    None
}

fn overlapping(ops: &[Op]) -> bool {
    // two operations of different threads overlap in time
    let mut v: Vec<&Op> = ops.iter().collect();
    v.sort_by_key(|o| o.call);
    let mut max_ret = [0u64; 256];
    for o in v {
        if max_ret.iter().enumerate().any(|(t, r)| t != o.thread as usize && *r > o.call) { return true; }
        if o.ret > max_ret[o.thread as usize] { max_ret[o.thread as usize] = o.ret; }
    }
    false
}

fn count_overlaps(ops: &[Op]) -> usize {
    // number of operations that overlap an operation of another thread (short histories only)
    ops.iter().filter(|a| ops.iter().any(|b| b.thread != a.thread && a.call < b.ret && b.call < a.ret)).count()
}

pub fn report(case: &FreeCase) -> RunReport {
    let cap = case.cap as usize;
    let mut classes = vec![format!("kind:{:?}", case.kind), format!("cap:{}", case.cap)];
    let render = |r: &Recorded| { let mut s = containers::render(&r.ops); if s.len() > 3000 { s.truncate(3000); s.push_str(" ..."); } s };
    if let Some(r) = &case.recorded {
        // frozen: re-judge the recorded history
        let judged = match case.mode { Mode::Burst { .. } => judge_burst(case.kind, case.cap, r), Mode::Long { .. } => judge_long(case.kind, cap, r) };
        let verdict = match judged { None => Verdict::Pass, Some((signature, detail)) => Verdict::Violation { signature, detail } };
        return RunReport { verdict, nontrivial: true, classes, fingerprint: 0, trace: None, summary: render(r) };
    }
    let _permit = acquire();
    match &case.mode {
        Mode::Burst { scripts, prefill, rounds } => {
            classes.push("mode:burst".into());
            let recs = run_burst(case.kind, cap, scripts, *prefill, *rounds as usize);
            let mut overlapped = 0usize;
            let mut negative = false;
            let mut fp = 0u64;
            let mut sample = String::new();
            for r in &recs {
                let ov = count_overlaps(&r.ops);
                if ov > 0 {
                    overlapped += 1;
                    let neg = r.ops.iter().any(|o| matches!(o.act, Act::Put { ok: false, .. } | Act::Get { got: None }));
                    negative |= neg;
                    if neg && sample.is_empty() { sample = format!("round {} of {}: {}", r.round, recs.len(), render(r)); }
                    // (distinctness: the relative order of all calls and returns of the round)
                    let mut ev: Vec<(u64, u8, bool)> = r.ops.iter().flat_map(|o| [(o.call, o.thread, false), (o.ret, o.thread, true)]).collect();
                    ev.sort();
                    use std::hash::{Hash, Hasher};
                    let mut h = std::collections::hash_map::DefaultHasher::new();
                    format!("{:?}{}{:?}", case.kind, case.cap, scripts).hash(&mut h);
                    ev.iter().map(|e| (e.1, e.2)).collect::<Vec<_>>().hash(&mut h);
                    fp ^= h.finish();
                }
                if let Some((signature, detail)) = judge_burst(case.kind, case.cap, r) {
                    let mut frozen = case.clone();
                    frozen.recorded = Some(r.clone());
                    freeze_case(&frozen);
                    return RunReport { verdict: Verdict::Violation { signature, detail }, nontrivial: true, classes, fingerprint: fp, trace: None, summary: render(r) };
                }
            }
            let share = overlapped * 100 / recs.len().max(1);
            classes.push(format!("rounds-with-real-overlap:{}", if share == 0 { "0%" } else if share < 25 { "<25%" } else if share < 75 { "25-75%" } else { ">=75%" }));
            RunReport { verdict: Verdict::Pass, nontrivial: overlapped > 0 && negative, classes, fingerprint: fp, trace: None, summary: sample }
        },
        Mode::Long { threads, ops, put_per_256, seed } => {
            classes.push("mode:long".into());
            let r = run_long(case.kind, cap, *threads as usize, *ops as usize, put_per_256, *seed);
            let full = r.ops.iter().filter(|o| matches!(o.act, Act::Put { ok: false, .. })).count();
            let empty = r.ops.iter().filter(|o| matches!(o.act, Act::Get { got: None })).count();
            let ov = overlapping(&r.ops);
            if full > 0 { classes.push("full-hit".into()); }
            if empty > 0 { classes.push("empty-hit".into()); }
            if ov { classes.push("overlap".into()); }
            use std::hash::{Hash, Hasher};
            let mut h = std::collections::hash_map::DefaultHasher::new();
            format!("{:?}", case).hash(&mut h);
            (full, empty, r.drained.len()).hash(&mut h);
            let fp = h.finish();
            let summary = format!("{} threads x {} operations on {:?} (capacity {}): {} insertions accepted, {} answered 'full', {} removals answered 'nothing', {} left for the final drain; first operations: {}",
                                  threads, ops, case.kind, case.cap, r.ops.iter().filter(|o| matches!(o.act, Act::Put { ok: true, .. })).count(), full, empty, r.drained.len(),
                                  containers::render(&r.ops.iter().copied().filter(|o| o.call < 60).collect::<Vec<_>>()));
            if let Some((signature, detail)) = judge_long(case.kind, cap, &r) {
                let mut frozen = case.clone();
                frozen.recorded = Some(r);
                freeze_case(&frozen);
                return RunReport { verdict: Verdict::Violation { signature, detail }, nontrivial: true, classes, fingerprint: fp, trace: None, summary };
            }
            RunReport { verdict: Verdict::Pass, nontrivial: ov && (full > 0 || empty > 0), classes, fingerprint: fp, trace: None, summary }
        },
    }
}

/// `./check.sh replay`: the recorded history (if any) is re-judged and shown, then the workload is re-executed live up to `LIVE_RERUNS` times
/// on the current tree; the verdict is that of the live re-executions (a recorded history says what happened once, on the tree it was recorded on)
const LIVE_RERUNS: u32 = 300;
pub fn replay_live(case: &FreeCase) -> RunReport {
    let mut note = String::new();
    if case.recorded.is_some() {
        let r = report(case);
        note = match &r.verdict {
            Verdict::Violation { signature, .. } => format!("the recorded execution violates the property ({signature}); "),
            _ => "the recorded execution passes the oracle; ".to_string(),
        };
    }
    let mut live = case.clone();
    live.recorded = None;
    for i in 0..LIVE_RERUNS {
        let mut r = std::panic::catch_unwind(std::panic::AssertUnwindSafe(|| report(&live))).unwrap_or_else(|_| RunReport::pass());
        if let Verdict::Violation { signature, detail } = r.verdict {
            r.verdict = Verdict::Violation { signature, detail: format!("{note}reproduced live in re-execution #{}: {detail}", i + 1) };
            return r;
        }
    }
    let mut r = RunReport::pass();
    r.summary = format!("{note}not reproduced in {LIVE_RERUNS} live re-executions of the workload on the current tree");
    r
}

// ---------------------------------------------------------------------------------------------------------------------
// generation

pub fn case_strategy(kinds: &'static [Kind], caps: &'static [u8], long_ops: u32) -> BoxedStrategy<FreeCase> {
    (any::<u16>(), any::<u16>()).prop_flat_map(move |(ki, ci)| {
        let kind = pick(kinds, ki);
        let cap = pick(caps, ci);
        let step = prop_oneof![Just(Step::Put), Just(Step::Get)];
        let burst = (proptest::collection::vec(proptest::collection::vec(step, 1..=4), 2..=4), prop_oneof![Just(0u8), Just(1u8), Just(cap - 1), Just(cap)], 100u16..400)
            .prop_map(|(scripts, prefill, rounds)| Mode::Burst { scripts, prefill, rounds });
        let long = (2u8..=8, long_ops / 4..=long_ops, proptest::collection::vec(prop_oneof![Just(128u8), Just(96u8), Just(160u8), Just(32u8), Just(224u8)], 1..=4), any::<u64>())
            .prop_map(|(threads, ops, put_per_256, seed)| Mode::Long { threads, ops, put_per_256, seed });
        (Just(kind), Just(cap), prop_oneof![3 => burst, 1 => long])
    }).prop_map(|(kind, cap, mode)| FreeCase { kind, cap, mode, recorded: None }).boxed()
}

/// C18: the four stand-alone containers, free-running
pub struct StandaloneFree;
static SA_KINDS: [Kind; 5] = [Kind::AtomicStack, Kind::AtomicQueue, Kind::FullSyncQueue, Kind::ParkingLotStack, Kind::ParkingLotStack];
static SA_CAPS: [u8; 4] = [2, 4, 8, 16];

impl Property for StandaloneFree {
    type Case = FreeCase;
    fn part(&self) -> &'static str { "standalone-free" }
    fn strategy(&self, _tier: Tier) -> BoxedStrategy<FreeCase> { case_strategy(&SA_KINDS, &SA_CAPS, 4000) }
    fn cases(&self, tier: Tier) -> u32 { match tier { Tier::Quick => 3_000, Tier::Thorough => 40_000 } }
    fn run(&self, case: &FreeCase) -> RunReport { report(case) }
    fn replay(&self, case: &FreeCase) -> RunReport { replay_live(case) }
    fn rule(&self) -> String {
        "free-running (real OS threads, no scheduler; the OS owns the interleaving, so a case is a workload, not an execution): container kind (atomic-flag stack, atomic queue, full-sync queue, parking-lot stack [double weight: its mutex is invisible to the controlled scheduler]) x capacity {2,4,8,16} x \
         {burst: 2..4 threads x scripts of 1..4 push/pop started together through a spin barrier, 100..399 rounds per case on fresh containers, prefill {0,1,cap-1,cap} | long: 2..8 threads x 1000..4000 operations each from per-thread PRNGs with insertion bias in {1/8,3/8,1/2,5/8,7/8}}; every call and return stamped from one global atomic counter (A precedes B only if A.ret < B.call); \
         oracle: burst rounds -- exact linearizability search vs bounded LIFO / FIFO incl. 'full' / 'empty' answers and the final drain (as the controlled part); long runs -- nothing lost / duplicated / invented / corrupted (final drain included), no 'nothing' answer while an element was inside during the whole call, no 'full' answer unless `capacity` slots could have been taken at some instant of the call, never more than `capacity` inside, FIFO order pattern (queues) / LIFO order pattern (stacks), reported length at quiescence; \
         non-trivial: operations of different threads really overlapped in time AND a 'full' or 'empty' answer occurred; distinct by (workload, interleaving of calls and returns of the overlapping rounds / outcome counts)".into()
    }
}

/// C02: the two raw rings, free-running
pub struct RingsFree;
static RING_KINDS: [Kind; 4] = [Kind::AtomicRing, Kind::AtomicRingSetter, Kind::FullSyncRing, Kind::FullSyncRingSetter];
static RING_CAPS: [u8; 4] = [2, 4, 8, 16];

impl Property for RingsFree {
    type Case = FreeCase;
    fn part(&self) -> &'static str { "rings-free" }
    fn strategy(&self, _tier: Tier) -> BoxedStrategy<FreeCase> { case_strategy(&RING_KINDS, &RING_CAPS, 4000) }
    fn cases(&self, tier: Tier) -> u32 { match tier { Tier::Quick => 2_500, Tier::Thorough => 40_000 } }
    fn run(&self, case: &FreeCase) -> RunReport { report(case) }
    fn replay(&self, case: &FreeCase) -> RunReport { replay_live(case) }
    fn rule(&self) -> String {
        "free-running (real OS threads, no scheduler): ring kind (atomic / full-sync, value- and setter-based publishing) x capacity {2,4,8,16} x {burst: 2..4 threads x 1..4 put/get started together, 100..399 rounds per case | long: 2..8 threads x 1000..4000 operations}; stamps from one global atomic counter; \
         oracle: burst rounds -- exact linearizability search vs bounded FIFO + interval rule for 'full' + final drain; long runs -- conservation, no false 'nothing', no spurious 'full', capacity bound, FIFO order pattern, length at quiescence; \
         non-trivial: operations of different threads really overlapped AND a 'full' or 'nothing' answer occurred".into()
    }
}
