//! E3 -- tokio workload runner: generated workloads through the real `StreamExecutor` / `Uni` / `Multi` / channel API on real
//! tokio runtimes (`current_thread` with the clock paused: virtual time, deterministic; `multi_thread` with 2 / 4 workers).
//! Item behaviour is driven by gates and yields, never by wall-clock margins; no oracle clause compares against a duration.
//! This file: shared infrastructure and the executor-level part (C11, C12). Uni / Multi / bare-channel workloads: rtchan.rs.

use crate::driver::{Property, RunReport, Tier, Verdict};
use futures::stream::{BoxStream, Stream, StreamExt};
use proptest::collection::vec;
use proptest::prelude::*;
use reactive_mutiny::prelude::advanced::Instruments;
use reactive_mutiny::stream_executor::{ExecutorStatus, StreamExecutor, StreamExecutorStats};
use serde::{Deserialize, Serialize};
use std::collections::{BTreeMap, BTreeSet};
use std::future::Future;
use std::pin::Pin;
use std::sync::atomic::{AtomicBool, AtomicI64, AtomicU64, Ordering::SeqCst};
use std::sync::{Arc, Mutex};
use std::task::{Context, Poll};
use std::time::Duration;

pub type BoxErr = Box<dyn std::error::Error + Send + Sync>;

// ---------------------------------------------------------------------------------------------------------------------
// panics on runtime threads: recorded by thread name (every case runs on threads named after a case-unique tag)

static PANICS: Mutex<Vec<(String, String)>> = Mutex::new(Vec::new());
static CASE_SEQ: AtomicU64 = AtomicU64::new(0);

/// called from the process-wide panic hook
pub fn note_panic(info: &std::panic::PanicHookInfo<'_>) {
    let t = std::thread::current();
    let Some(name) = t.name() else { return };
    if !name.starts_with("rtcase-") { return; }
    let msg = if let Some(s) = info.payload().downcast_ref::<&str>() { s.to_string() } else if let Some(s) = info.payload().downcast_ref::<String>() { s.clone() } else { "<non-string panic>".into() };
    let loc = info.location().map(|l| format!(" at {}:{}", l.file(), l.line())).unwrap_or_default();
    if let Ok(mut g) = PANICS.lock() { g.push((name.to_string(), format!("{msg}{loc}"))); }
}

fn take_panics(tag: &str) -> Vec<String> {
    let mut g = PANICS.lock().unwrap();
    let mut mine = vec![];
    g.retain(|(n, m)| if n.starts_with(tag) { mine.push(m.clone()); false } else { true });
    mine
}

// ---------------------------------------------------------------------------------------------------------------------
// runtimes

#[derive(Clone, Copy, Debug, PartialEq, Eq, Serialize, Deserialize)]
pub enum Rt { CurrentPaused, Multi2, Multi4 }

impl Rt {
    pub fn paused(self) -> bool { self == Rt::CurrentPaused }
    pub fn name(self) -> &'static str { match self { Rt::CurrentPaused => "current_thread(paused-clock)", Rt::Multi2 => "multi_thread(2)", Rt::Multi4 => "multi_thread(4)" } }
}

pub fn rt_strategy() -> BoxedStrategy<Rt> { prop_oneof![5 => Just(Rt::CurrentPaused), 2 => Just(Rt::Multi2), 1 => Just(Rt::Multi4)].boxed() }

pub enum CaseEnd<T> {
    Done(T),
    /// the workload did not finish: under the paused clock that is decided (nothing but the library's own retry timers can run
    /// any more within 30 virtual seconds); on a multi-thread runtime it is a wall-clock watchdog
    Hang { decided: bool },
    Panicked(Vec<String>),
}

/// Runs `main` to completion on a fresh runtime of the given flavour, on threads named after a case-unique tag
pub fn run_case<T: Send + 'static, F: Future<Output = T> + 'static>(rt: Rt, main: impl FnOnce() -> F + Send + 'static) -> CaseEnd<T> {
    crate::sched::install_quiet_panic_hook();
    let tag = format!("rtcase-{}-", CASE_SEQ.fetch_add(1, SeqCst));
    let (tx, rx) = std::sync::mpsc::channel();
    let tag2 = tag.clone();
    let _ = std::thread::Builder::new().name(format!("{tag}main")).stack_size(1024 * 1024).spawn(move || {
        let runtime = match rt {
            Rt::CurrentPaused => tokio::runtime::Builder::new_current_thread().enable_all().start_paused(true).build(),
            Rt::Multi2 | Rt::Multi4 => tokio::runtime::Builder::new_multi_thread().worker_threads(if rt == Rt::Multi2 { 2 } else { 4 }).thread_name(format!("{tag2}worker")).enable_all().build(),
        }.expect("tokio runtime");
        let limit = if rt.paused() { Duration::from_secs(30) } else { Duration::from_secs(20) };
        let out = std::panic::catch_unwind(std::panic::AssertUnwindSafe(|| runtime.block_on(async move { tokio::time::timeout(limit, main()).await })));
        // tasks the library spawned and that never end must not keep this thread: shut down without waiting
        runtime.shutdown_background();
        let _ = tx.send(out);
    });
    let got = rx.recv_timeout(Duration::from_secs(60));
    let panics = take_panics(&tag);
    match got {
        Ok(Ok(Ok(v))) => if panics.is_empty() { CaseEnd::Done(v) } else { CaseEnd::Panicked(panics) },
        Ok(Ok(Err(_elapsed))) => if panics.is_empty() { CaseEnd::Hang { decided: rt.paused() } } else { CaseEnd::Panicked(panics) },
        Ok(Err(_)) => CaseEnd::Panicked(if panics.is_empty() { vec!["panic on the case's main thread".into()] } else { panics }),
        Err(_) => if panics.is_empty() { CaseEnd::Hang { decided: false } } else { CaseEnd::Panicked(panics) },
    }
}

// ---------------------------------------------------------------------------------------------------------------------
// item behaviours and the ledger every pipeline reports to

#[derive(Clone, Copy, Debug, PartialEq, Eq, Serialize, Deserialize)]
pub enum Beh {
    Ok,
    /// completes after k `yield_now()`s
    OkYields(u8),
    /// completes once the harness opens the gate
    OkGated,
    Err,
    ErrYields(u8),
    /// never completes on its own: only the executor's timeout can end it (generated only when a timeout is configured)
    Slow,
}

impl Beh {
    pub fn is_err(self) -> bool { matches!(self, Beh::Err | Beh::ErrYields(_)) }
    pub fn short(self) -> &'static str { match self { Beh::Ok => "ok", Beh::OkYields(_) => "ok-after-yields", Beh::OkGated => "ok-gated", Beh::Err => "err", Beh::ErrYields(_) => "err-after-yields", Beh::Slow => "slow" } }
}

#[derive(Clone, Copy, Debug, PartialEq, Eq, Serialize, Deserialize)]
pub enum ExecKind {
    /// `spawn_executor`: items are fallible futures
    FutFall,
    /// `spawn_futures_executor`: items are infallible futures
    Fut,
    /// `spawn_fallibles_executor`: items are `Result`s, with an error callback
    Fall,
    /// `spawn_non_futures_executor`: items are `Result`s, no error callback (StreamExecutor only)
    NonFut,
    /// `spawn_non_futures_non_fallibles_executor`
    Plain,
}

impl ExecKind {
    pub fn futures(self) -> bool { matches!(self, ExecKind::FutFall | ExecKind::Fut) }
    pub fn fallible(self) -> bool { matches!(self, ExecKind::FutFall | ExecKind::Fall | ExecKind::NonFut) }
    pub fn has_err_callback(self) -> bool { matches!(self, ExecKind::FutFall | ExecKind::Fall) }
    pub fn name(self) -> &'static str { match self { ExecKind::FutFall => "spawn_executor", ExecKind::Fut => "spawn_futures_executor", ExecKind::Fall => "spawn_fallibles_executor", ExecKind::NonFut => "spawn_non_futures_executor", ExecKind::Plain => "spawn_non_futures_non_fallibles_executor" } }
    /// what the behaviour becomes for this executor kind / timeout setting (construction instead of rejection)
    pub fn adapt(self, b: Beh, timeout_on: bool, paused: bool) -> Beh {
        let mut b = b;
        if !self.fallible() && b.is_err() { b = match b { Beh::ErrYields(k) => Beh::OkYields(k), _ => Beh::Ok }; }
        if !self.futures() { b = if b.is_err() { Beh::Err } else { Beh::Ok }; }
        if b == Beh::Slow && !(timeout_on && self.futures()) { b = Beh::OkGated; }
        // with a real clock the timeout must never be able to hit an item that is meant to complete: those are ready at their first poll
        if timeout_on && !paused && self.futures() { b = match b { Beh::OkYields(_) | Beh::OkGated => Beh::Ok, Beh::ErrYields(_) => Beh::Err, other => other }; }
        b
    }
}

#[derive(Clone, Debug)]
pub struct CallbackRec {
    pub executor:    usize,
    pub name:        String,
    pub stamp:       u64,
    pub status:      String,
    pub start_delta: u64,
    pub finish_delta: u64,
    pub ok:          u32,
    pub timed_out:   u32,
    pub failed:      u32,
}

/// What every pipeline of a case reports to. `e` is the index of the executor / listener / stream.
pub struct World {
    pub behs:      Vec<Beh>,
    pub stamp:     AtomicU64,
    pub started:   Mutex<Vec<Vec<(u64, u64)>>>,
    pub finished:  Mutex<Vec<Vec<(u64, u64)>>>,
    pub dropped_incomplete: Mutex<Vec<Vec<u64>>>,
    pub in_flight: Vec<AtomicI64>,
    pub max_in_flight: Vec<AtomicI64>,
    pub gate:      tokio::sync::Semaphore,
    pub gate_open: AtomicBool,
    pub errs:      Mutex<Vec<(u64, u64)>>,
    pub callbacks: Mutex<Vec<CallbackRec>>,
    pub callback_seen: tokio::sync::Notify,
}

impl World {
    pub fn new(behs: Vec<Beh>, executors: usize) -> Arc<Self> {
        Arc::new(World {
            behs, stamp: AtomicU64::new(0),
            started: Mutex::new(vec![vec![]; executors]), finished: Mutex::new(vec![vec![]; executors]), dropped_incomplete: Mutex::new(vec![vec![]; executors]),
            in_flight: (0..executors).map(|_| AtomicI64::new(0)).collect(), max_in_flight: (0..executors).map(|_| AtomicI64::new(0)).collect(),
            gate: tokio::sync::Semaphore::new(0), gate_open: AtomicBool::new(false),
            errs: Mutex::new(vec![]), callbacks: Mutex::new(vec![]), callback_seen: tokio::sync::Notify::new(),
        })
    }
    pub fn tick(&self) -> u64 { self.stamp.fetch_add(1, SeqCst) + 1 }
    pub fn beh(&self, v: u64) -> Beh { self.behs.get((v as usize).wrapping_sub(1)).copied().unwrap_or(Beh::Ok) }
    pub fn open_gate(&self) { if !self.gate_open.swap(true, SeqCst) { self.gate.add_permits(1 << 20); } }
    /// a synchronous pipeline stage processed `v`
    pub fn sync_item(&self, e: usize, v: u64) {
        let s = self.tick();
        self.started.lock().unwrap()[e].push((v, s));
        let f = self.tick();
        self.finished.lock().unwrap()[e].push((v, f));
    }
    pub fn on_err(&self, text: &str) {
        let v = text.trim_start_matches('E').parse::<u64>().unwrap_or(0);
        let s = self.tick();
        self.errs.lock().unwrap().push((v, s));
    }
    pub fn on_callback(&self, e: usize, stats: &Arc<dyn StreamExecutorStats + Send + Sync>) {
        let stamp = self.tick();
        let status = match stats.executor_status().load(SeqCst) {
            ExecutorStatus::NotStarted => "NotStarted", ExecutorStatus::Running => "Running", ExecutorStatus::ScheduledToFinish => "ScheduledToFinish",
            ExecutorStatus::ProgrammaticallyEnded => "ProgrammaticallyEnded", ExecutorStatus::StreamEnded => "StreamEnded",
        }.to_string();
        let rec = CallbackRec { executor: e, name: stats.executor_name().clone(), stamp, status, start_delta: stats.execution_start_delta_nanos(), finish_delta: stats.execution_finish_delta_nanos(),
                                ok: stats.ok_events_avg_future_duration().probe().0, timed_out: stats.timed_out_events_avg_future_duration().probe().0, failed: stats.failed_events_avg_future_duration().probe().0 };
        self.callbacks.lock().unwrap().push(rec);
        self.callback_seen.notify_waiters();
    }
    /// waits until `n` close callbacks were recorded
    pub async fn wait_callbacks(&self, n: usize) {
        loop {
            let notified = self.callback_seen.notified();
            if self.callbacks.lock().unwrap().len() >= n { return; }
            notified.await;
        }
    }
    pub fn finished_of(&self, e: usize) -> Vec<u64> { self.finished.lock().unwrap()[e].iter().map(|x| x.0).collect() }
    pub fn started_of(&self, e: usize) -> Vec<u64> { self.started.lock().unwrap()[e].iter().map(|x| x.0).collect() }
}

pub struct InFlight { world: Arc<World>, e: usize, v: u64, done: bool }
impl InFlight {
    pub fn new(world: &Arc<World>, e: usize, v: u64) -> Self {
        let s = world.tick();
        world.started.lock().unwrap()[e].push((v, s));
        let now = world.in_flight[e].fetch_add(1, SeqCst) + 1;
        world.max_in_flight[e].fetch_max(now, SeqCst);
        InFlight { world: Arc::clone(world), e, v, done: false }
    }
    pub fn done(&mut self) {
        self.done = true;
        let s = self.world.tick();
        self.world.finished.lock().unwrap()[self.e].push((self.v, s));
    }
}
impl Drop for InFlight {
    fn drop(&mut self) {
        self.world.in_flight[self.e].fetch_sub(1, SeqCst);
        if !self.done { self.world.dropped_incomplete.lock().unwrap()[self.e].push(self.v); }
    }
}

/// the future an item turns into (future executor kinds)
pub async fn item_future(world: Arc<World>, e: usize, v: u64) -> Result<u64, BoxErr> {
    let beh = world.beh(v);
    let mut guard = InFlight::new(&world, e, v);
    match beh {
        Beh::Ok | Beh::Err => {},
        Beh::OkYields(k) | Beh::ErrYields(k) => for _ in 0..k { tokio::task::yield_now().await; },
        Beh::OkGated => { let _ = world.gate.acquire().await; },
        Beh::Slow => std::future::pending::<()>().await,
    }
    guard.done();
    if beh.is_err() { Err(format!("E{v}").into()) } else { Ok(v) }
}

/// the value an item turns into (non-future executor kinds)
pub fn item_sync(world: &World, e: usize, v: u64) -> Result<u64, BoxErr> {
    world.sync_item(e, v);
    if world.beh(v).is_err() { Err(format!("E{v}").into()) } else { Ok(v) }
}

pub type FutItem = Pin<Box<dyn Future<Output = Result<u64, BoxErr>> + Send>>;
pub type PlainFutItem = Pin<Box<dyn Future<Output = u64> + Send>>;

// ---------------------------------------------------------------------------------------------------------------------
// a source stream that is not always ready: answers Pending (and wakes itself) where the pattern says so

pub struct Choppy { items: std::vec::IntoIter<u64>, pattern: Vec<bool>, at: usize }
impl Stream for Choppy {
    type Item = u64;
    fn poll_next(mut self: Pin<&mut Self>, cx: &mut Context<'_>) -> Poll<Option<u64>> {
        let i = self.at;
        self.at += 1;
        if self.pattern.get(i).copied().unwrap_or(false) { cx.waker().wake_by_ref(); return Poll::Pending; }
        Poll::Ready(self.items.next())
    }
}

// ---------------------------------------------------------------------------------------------------------------------
// instruments menu

pub static INSTRUMENTS: [usize; 9] = [0, 32, 7, 103, 107, 1, 2, 8, 36];
pub fn instruments_name(i: usize) -> &'static str { match i { 0 => "NoInstruments", 32 => "LogsWithoutMetrics", 7 => "MetricsWithoutLogs", 103 => "LogsWithMetrics", 107 => "LogsWithExpensiveMetrics", 1 => "Custom(COUNTERS)", 2 => "Custom(SATURATION)", 8 => "Custom(EXPENSIVE_PROFILING)", 36 => "Custom(LOG|CHEAP_PROFILING)", _ => "?" } }
/// metrics are enabled iff any of COUNTERS (1), SATURATION (2), CHEAP_PROFILING (4), EXPENSIVE_PROFILING (8) is set (src/instruments.rs)
pub fn metrics_on(i: usize) -> bool { i & 15 != 0 }

macro_rules! by_instruments {
    ($i:expr, $I:ident => $e:expr) => {
        match $i {
            0   => { const $I: usize = 0; $e },
            32  => { const $I: usize = 32; $e },
            7   => { const $I: usize = 7; $e },
            103 => { const $I: usize = 103; $e },
            107 => { const $I: usize = 107; $e },
            1   => { const $I: usize = 1; $e },
            2   => { const $I: usize = 2; $e },
            8   => { const $I: usize = 8; $e },
            36  => { const $I: usize = 36; $e },
            other => panic!("unsupported instruments {other}"),
        }
    }
}

// ---------------------------------------------------------------------------------------------------------------------
// the executor-level part: StreamExecutor::spawn_* driven directly over a generated item sequence

#[derive(Clone, Debug, Serialize, Deserialize)]
pub struct ExecCase {
    pub exec:        ExecKind,
    pub instruments: usize,
    pub limit:       u8,
    pub timeout_on:  bool,
    pub rt:          Rt,
    pub items:       Vec<Beh>,
    /// source-stream polls answered Pending
    pub chop:        Vec<bool>,
    /// yields of the releaser task before it opens the gate
    pub release_after: u8,
    /// (virtual) milliseconds the asynchronous error callback of `spawn_executor` takes (paused-clock runtime only; may exceed the futures timeout: the
    /// timeout bounds the item's future, not the user's callback)
    #[serde(default)]
    pub err_cb_delay: u8,
}

pub struct ExecOutcome {
    pub world: Arc<World>,
    pub behs:  Vec<Beh>,
}

fn timeout_of(case_timeout_on: bool, rt: Rt) -> Duration {
    if !case_timeout_on { Duration::ZERO } else if rt.paused() { Duration::from_millis(50) } else { Duration::from_millis(5) }
}

async fn exec_main(case: ExecCase) -> ExecOutcome {
    let behs: Vec<Beh> = case.items.iter().map(|b| case.exec.adapt(*b, case.timeout_on, case.rt.paused())).collect();
    let world = World::new(behs.clone(), 1);
    let n = behs.len() as u64;
    let source = Choppy { items: (1..=n).collect::<Vec<_>>().into_iter(), pattern: case.chop.clone(), at: 0 };
    let timeout = timeout_of(case.timeout_on, case.rt);
    let limit = case.limit as u32;
    let w = Arc::clone(&world);
    let w_err = Arc::clone(&world);
    let w_cb = Arc::clone(&world);
    let on_close = move |stats: Arc<dyn StreamExecutorStats + Send + Sync>| { let w = Arc::clone(&w_cb); async move { w.on_callback(0, &stats); } };
    by_instruments!(case.instruments, I => {
        let executor = StreamExecutor::<I>::with_futures_timeout("rmv", timeout);
        match case.exec {
            ExecKind::FutFall => {
                let stream: BoxStream<'static, FutItem> = source.map(move |v| Box::pin(item_future(Arc::clone(&w), 0, v)) as FutItem).boxed();
                let delay = if case.rt.paused() { case.err_cb_delay as u64 } else { 0 };
                executor.spawn_executor(limit, move |err: BoxErr| { let w = Arc::clone(&w_err); async move { if delay > 0 { tokio::time::sleep(Duration::from_millis(delay)).await; } w.on_err(&err.to_string()); } }, on_close, stream);
            },
            ExecKind::Fut => {
                let stream: BoxStream<'static, PlainFutItem> = source.map(move |v| { let w = Arc::clone(&w); Box::pin(async move { item_future(w, 0, v).await.unwrap_or(0) }) as PlainFutItem }).boxed();
                executor.spawn_futures_executor(limit, on_close, stream);
            },
            ExecKind::Fall => {
                let stream: BoxStream<'static, Result<u64, BoxErr>> = source.map(move |v| item_sync(&w, 0, v)).boxed();
                executor.spawn_fallibles_executor(limit, move |err: BoxErr| w_err.on_err(&err.to_string()), on_close, stream);
            },
            ExecKind::NonFut => {
                let stream: BoxStream<'static, Result<u64, BoxErr>> = source.map(move |v| item_sync(&w, 0, v)).boxed();
                executor.spawn_non_futures_executor(limit, on_close, stream);
            },
            ExecKind::Plain => {
                let stream: BoxStream<'static, u64> = source.map(move |v| item_sync(&w, 0, v).unwrap_or(0)).boxed();
                executor.spawn_non_futures_non_fallibles_executor(limit, on_close, stream);
            },
        }
    });
    // the releaser: opens the gate after a generated number of yields
    let w2 = Arc::clone(&world);
    let k = case.release_after;
    tokio::spawn(async move { for _ in 0..k { tokio::task::yield_now().await; } w2.open_gate(); });
    world.wait_callbacks(1).await;
    // give a second (spurious) callback the chance to show up
    for _ in 0..4 { tokio::task::yield_now().await; }
    ExecOutcome { world, behs }
}

pub fn multiset(v: &[u64]) -> BTreeMap<u64, u32> { let mut m = BTreeMap::new(); for x in v { *m.entry(*x).or_insert(0) += 1; } m }

/// C11 + C12 at the executor level. Returns (signature, detail)
pub fn judge_exec(case: &ExecCase, o: &ExecOutcome) -> Option<(String, String)> {
    let w = &o.world;
    let k = format!("{}/{}/timeout={}", case.exec.name(), instruments_name(case.instruments), if case.timeout_on { "on" } else { "off" });
    let fail = |sig: &str, what: String| Some((format!("{k}/{sig}"), what));
    let n = o.behs.len();
    let all: Vec<u64> = (1..=n as u64).collect();
    let intended = |f: &dyn Fn(Beh) -> bool| -> Vec<u64> { all.iter().copied().filter(|v| f(o.behs[*v as usize - 1])).collect() };
    let slow = intended(&|b| b == Beh::Slow);
    let errs = intended(&|b| b.is_err());
    let oks = intended(&|b| !b.is_err() && b != Beh::Slow);
    let finished = w.finished_of(0);
    let started = w.started_of(0);
    // every item entered processing exactly once, and everything that is not meant to time out completed -- also after failures / time-outs
    if multiset(&started) != multiset(&all) {
        let missing: Vec<u64> = all.iter().copied().filter(|v| !started.contains(v)).collect();
        if !missing.is_empty() {
            let first = missing[0];
            let after = o.behs[..first as usize - 1].iter().rev().find(|b| b.is_err() || **b == Beh::Slow).map(|b| b.short()).unwrap_or("nothing special");
            return fail("items-never-processed", format!("items {missing:?} of {n} never entered processing although the executor ended (the closest earlier non-ok item was '{after}')"));
        }
        return fail("item-processed-twice", format!("started {started:?}"));
    }
    let must_finish: Vec<u64> = all.iter().copied().filter(|v| !slow.contains(v)).collect();
    if multiset(&finished) != multiset(&must_finish) {
        let lost: Vec<u64> = must_finish.iter().copied().filter(|v| !finished.contains(v)).collect();
        if !lost.is_empty() { return fail("item-future-abandoned", format!("items {lost:?} were started but their processing never completed although they are not slow (dropped incomplete: {:?})", w.dropped_incomplete.lock().unwrap()[0])); }
        return fail("timed-out-item-completed", format!("slow items {:?} completed", finished.iter().filter(|v| slow.contains(v)).collect::<Vec<_>>()));
    }
    if multiset(&w.dropped_incomplete.lock().unwrap()[0]) != multiset(&slow) {
        return fail("timed-out-item-not-cancelled", format!("slow items {slow:?}; futures dropped before completing: {:?}", w.dropped_incomplete.lock().unwrap()[0]));
    }
    // the error callback: exactly once per failed item, never otherwise
    let cb_errs: Vec<u64> = w.errs.lock().unwrap().iter().map(|x| x.0).collect();
    if case.exec.has_err_callback() {
        if multiset(&cb_errs) != multiset(&errs) { return fail("error-callback-mismatch", format!("failed items {errs:?}; error callback invoked for {cb_errs:?}")); }
    } else if !cb_errs.is_empty() { return fail("error-callback-mismatch", format!("error callback invoked for {cb_errs:?} on an executor kind without one")); }
    // concurrency limit
    let max = w.max_in_flight[0].load(SeqCst);
    if case.exec.futures() && max > case.limit as i64 { return fail("limit-exceeded", format!("{max} item futures were in progress at the same time; the concurrency limit is {}", case.limit)); }
    // close callback: exactly once, after the last item, in an ended state
    let cbs = w.callbacks.lock().unwrap().clone();
    if cbs.len() != 1 { return fail("close-callback-count", format!("the close callback ran {} times", cbs.len())); }
    let cb = &cbs[0];
    let last_item = w.finished.lock().unwrap()[0].iter().map(|x| x.1).chain(w.errs.lock().unwrap().iter().map(|x| x.1)).max().unwrap_or(0);
    if cb.stamp < last_item { return fail("close-callback-before-last-item", format!("the close callback ran at logical time {} but an item (or its error callback) completed at {last_item}", cb.stamp)); }
    if cb.status != "StreamEnded" { return fail("close-callback-status", format!("the executor's stream ended by itself, but the close callback found the executor in state {}", cb.status)); }
    if cb.finish_delta < cb.start_delta || cb.finish_delta == u64::MAX || cb.start_delta == u64::MAX { return fail("finish-before-start", format!("start delta {} ns, finish delta {} ns", cb.start_delta, cb.finish_delta)); }
    // the counters
    if metrics_on(case.instruments) {
        let (eo, et, ef) = (oks.len() as u32, slow.len() as u32, errs.len() as u32);
        if (cb.ok, cb.timed_out, cb.failed) != (eo, et, ef) {
            let sub = if cb.ok + cb.timed_out + cb.failed != n as u32 { "counters-do-not-add-up" } else { "counters-misattributed" };
            return fail(sub, format!("{n} items: intended ok/timed-out/failed = {eo}/{et}/{ef}, the close callback saw {}/{}/{}", cb.ok, cb.timed_out, cb.failed));
        }
    } else if (cb.ok, cb.timed_out, cb.failed) != (0, 0, 0) {
        return fail("counters-with-metrics-off", format!("metrics are disabled but the counters read {}/{}/{}", cb.ok, cb.timed_out, cb.failed));
    }
    None
}

pub fn beh_strategy() -> BoxedStrategy<Beh> {
    prop_oneof![4 => Just(Beh::Ok), 2 => (1u8..4).prop_map(Beh::OkYields), 1 => Just(Beh::OkGated), 2 => Just(Beh::Err), 1 => (1u8..4).prop_map(Beh::ErrYields), 2 => Just(Beh::Slow)].boxed()
}

pub struct C11Exec;
impl C11Exec {
    fn strategy_impl() -> BoxedStrategy<ExecCase> {
        (any::<u16>(), any::<u16>(), 1u8..=8, any::<bool>(), rt_strategy(), vec(beh_strategy(), 0..40), vec(prop_oneof![3 => Just(false), 1 => Just(true)], 0..24), 0u8..12, prop_oneof![3 => Just(0u8), 1 => Just(20u8), 1 => Just(80u8)])
            .prop_map(|(e, i, limit, timeout_on, rt, items, chop, release_after, err_cb_delay)| {
                let exec = crate::driver::pick(&[ExecKind::FutFall, ExecKind::Fut, ExecKind::Fall, ExecKind::NonFut, ExecKind::Plain], e);
                let instruments = crate::driver::pick(&INSTRUMENTS, i);
                let mut items = items;
                // real-clock time-outs cost real time: keep slow items few there
                if timeout_on && !rt.paused() { let mut slow = 0; for b in items.iter_mut() { if *b == Beh::Slow { slow += 1; if slow > 3 { *b = Beh::Ok; } } } }
                ExecCase { exec, instruments, limit, timeout_on, rt, items, chop, release_after, err_cb_delay }
            }).boxed()
    }
}

pub fn exec_report(case: &ExecCase, part: &str) -> RunReport {
    let c2 = case.clone();
    let end = run_case(case.rt, move || exec_main(c2));
    let behs: Vec<Beh> = case.items.iter().map(|b| case.exec.adapt(*b, case.timeout_on, case.rt.paused())).collect();
    let kinds: BTreeSet<&'static str> = behs.iter().map(|b| if b.is_err() { "err" } else if *b == Beh::Slow { "slow" } else { "ok" }).collect();
    let mut classes = vec![format!("fn:{}", case.exec.name()), format!("instruments:{}", instruments_name(case.instruments)), format!("timeout:{}", if case.timeout_on { "on" } else { "off" }),
                           format!("limit:{}", case.limit), format!("runtime:{}", case.rt.name()), format!("outcome-kinds:{}", kinds.len())];
    if behs.iter().any(|b| *b == Beh::OkGated) { classes.push("gated-items".into()); }
    let fingerprint = { use std::hash::{Hash, Hasher}; let mut h = std::collections::hash_map::DefaultHasher::new(); format!("{part}{case:?}").hash(&mut h); h.finish() };
    let k = format!("{}/{}/timeout={}", case.exec.name(), instruments_name(case.instruments), if case.timeout_on { "on" } else { "off" });
    let (verdict, summary) = match end {
        CaseEnd::Done(o) => {
            let cb = o.world.callbacks.lock().unwrap().first().cloned();
            let summary = format!("{} items {:?} -> finished {:?}, error callbacks {:?}, max in flight {}, callback {:?}", behs.len(), behs.iter().map(|b| b.short()).collect::<Vec<_>>(),
                                  o.world.finished_of(0), o.world.errs.lock().unwrap().iter().map(|x| x.0).collect::<Vec<_>>(), o.world.max_in_flight[0].load(SeqCst), cb.map(|c| (c.status, c.ok, c.timed_out, c.failed)));
            (match judge_exec(case, &o) { None => Verdict::Pass, Some((signature, detail)) => Verdict::Violation { signature, detail: format!("{detail}; {summary}") } }, summary)
        },
        CaseEnd::Hang { decided } => (Verdict::Inconclusive(if decided { "no-progress(paused-clock)".into() } else { "watchdog".into() }), "did not finish".into()),
        CaseEnd::Panicked(p) => (Verdict::Violation { signature: format!("{k}/panic"), detail: format!("a task panicked: {p:?}") }, format!("panic {p:?}")),
    };
    let nontrivial = kinds.len() >= 2 || matches!(verdict, Verdict::Violation { .. });
    RunReport { verdict, nontrivial, classes, fingerprint, trace: None, summary }
}

impl Property for C11Exec {
    type Case = ExecCase;
    fn attempts(&self, case: &ExecCase) -> u32 { if case.rt.paused() { 1 } else { 25 } }
    fn part(&self) -> &'static str { "executor-accounting" }
    fn strategy(&self, _tier: Tier) -> BoxedStrategy<ExecCase> { Self::strategy_impl() }
    fn cases(&self, tier: Tier) -> u32 { match tier { Tier::Quick => 16_000, Tier::Thorough => 160_000 } }
    fn run(&self, case: &ExecCase) -> RunReport { exec_report(case, "c11") }
    fn rule(&self) -> String {
        "generated: StreamExecutor::{spawn_executor | spawn_futures_executor | spawn_fallibles_executor | spawn_non_futures_executor | spawn_non_futures_non_fallibles_executor} x instruments {None, LogsWithoutMetrics, MetricsWithoutLogs, LogsWithMetrics, LogsWithExpensiveMetrics, Custom(COUNTERS), Custom(SATURATION), Custom(EXPENSIVE_PROFILING), Custom(LOG|CHEAP_PROFILING)} x futures timeout {off, on} x concurrency limit 1..8 x runtime {current_thread with the clock paused, multi_thread(2), multi_thread(4)} x 0..39 items over {ok, ok after k yields, ok once a gate opens, error, error after k yields, slow = never completes by itself (timeout on only)} (adapted to what the executor kind can express) x a source stream that answers Pending at generated polls x the instant the gate opens x spawn_executor's asynchronous error callback taking 0 / 20 / 80 virtual ms (paused clock; the time-out is 50 ms there); \
         oracle: every item enters processing exactly once and completes unless it is slow (also after failures and time-outs); slow items' futures are dropped uncompleted; error callback exactly once per failed item and never otherwise; at most `limit` item futures in progress at any instant (gauge inside the items); in the close callback: exactly one call, after the last item, status StreamEnded, finish >= start, and with metrics on ok / timed-out / failed each equal the intended number (so they add up to the item count), with metrics off all zero; with a real clock, items meant to complete are ready at their first poll so a time-out can never hit them; \
         non-trivial: the sequence mixes at least two outcome kinds".into()
    }
}

/// the C12 registration of the same workloads (life-cycle clauses only matter there, but the whole oracle runs)
pub struct C12Exec;
impl Property for C12Exec {
    type Case = ExecCase;
    fn attempts(&self, case: &ExecCase) -> u32 { if case.rt.paused() { 1 } else { 25 } }
    fn part(&self) -> &'static str { "executor-lifecycle" }
    fn strategy(&self, _tier: Tier) -> BoxedStrategy<ExecCase> { C11Exec::strategy_impl() }
    fn cases(&self, tier: Tier) -> u32 { match tier { Tier::Quick => 8_000, Tier::Thorough => 80_000 } }
    fn run(&self, case: &ExecCase) -> RunReport {
        let mut r = exec_report(case, "c12");
        // out-of-order completion: an item that yields / waits next to one that does not, with limit > 1
        let behs: Vec<Beh> = case.items.iter().map(|b| case.exec.adapt(*b, case.timeout_on, case.rt.paused())).collect();
        let ooo = case.limit > 1 && case.exec.futures() && behs.iter().any(|b| matches!(b, Beh::OkYields(_) | Beh::ErrYields(_) | Beh::OkGated)) && behs.iter().any(|b| matches!(b, Beh::Ok | Beh::Err));
        if ooo { r.classes.push("out-of-order-completion".into()); }
        r.nontrivial = ooo || matches!(r.verdict, Verdict::Violation { .. });
        r
    }
    fn rule(&self) -> String {
        "generated: as the executor-accounting part of C11 (every spawn function x instruments x timeout x limit x runtime x item sequence); \
         oracle (life cycle): the close callback runs exactly once, at a logical time after the end of the last item's processing (and of its error callback), finds the executor in state StreamEnded (its stream ended by itself; nobody scheduled it to finish), with finish delta >= start delta and both set; \
         non-trivial: items complete out of order (limit > 1, a waiting item next to an immediate one)".into()
    }
}
