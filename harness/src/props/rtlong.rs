//! E3, long item sequences (C11): the executor's outcome counters must add up to the number of items for *every* item sequence -- including
//! pipelines that yield more than 2^24 items, where a counter kept in (or derived through) an `f32` stops being exact. The non-future executor
//! kinds process ~10^7 items per second, so a few such sequences fit into the quick tier.

use crate::driver::{Property, RunReport, Tier, Verdict};
use crate::props::rt::*;
use futures::stream::{BoxStream, StreamExt};
use proptest::prelude::*;
use reactive_mutiny::stream_executor::{StreamExecutor, StreamExecutorStats};
use serde::{Deserialize, Serialize};
use std::sync::atomic::{AtomicU64, Ordering::SeqCst};
use std::sync::Arc;
use std::time::Duration;

#[derive(Clone, Debug, Serialize, Deserialize)]
pub struct LongCase {
    pub exec:      ExecKind,
    /// items = 2^24 + extra
    pub extra:     u32,
    /// every k-th item fails (fallible kinds; 0: none)
    pub err_every: u32,
    pub rt:        Rt,
}

pub struct LongOutcome { pub n: u64, pub errs: u64, pub ok: u32, pub timed_out: u32, pub failed: u32, pub err_callbacks: u64, pub callbacks: u64 }

async fn long_main(case: LongCase) -> LongOutcome {
    let n = (1u64 << 24) + case.extra as u64;
    let k = if case.exec.fallible() { case.err_every as u64 } else { 0 };
    let errs = if k == 0 { 0 } else { n / k };
    let err_callbacks = Arc::new(AtomicU64::new(0));
    let callbacks = Arc::new(AtomicU64::new(0));
    let result: Arc<std::sync::Mutex<Option<(u32, u32, u32)>>> = Arc::new(std::sync::Mutex::new(None));
    let seen = Arc::new(tokio::sync::Notify::new());
    let (r2, s2, c2) = (Arc::clone(&result), Arc::clone(&seen), Arc::clone(&callbacks));
    let on_close = move |stats: Arc<dyn StreamExecutorStats + Send + Sync>| { let (r, s, c) = (Arc::clone(&r2), Arc::clone(&s2), Arc::clone(&c2)); async move {
        c.fetch_add(1, SeqCst);
        *r.lock().unwrap() = Some((stats.ok_events_avg_future_duration().probe().0, stats.timed_out_events_avg_future_duration().probe().0, stats.failed_events_avg_future_duration().probe().0));
        s.notify_waiters();
    } };
    let executor = StreamExecutor::<7>::with_futures_timeout("rmv", Duration::ZERO);      // 7: Instruments::MetricsWithoutLogs
    let item = move |v: u64| -> Result<u64, BoxErr> { if k > 0 && v % k == 0 { Err(format!("E{v}").into()) } else { Ok(v) } };
    let source = futures::stream::iter(1..=n);
    match case.exec {
        ExecKind::Fall => {
            let ec = Arc::clone(&err_callbacks);
            let stream: BoxStream<'static, Result<u64, BoxErr>> = source.map(item).boxed();
            executor.spawn_fallibles_executor(1, move |_err: BoxErr| { ec.fetch_add(1, SeqCst); }, on_close, stream);
        },
        ExecKind::NonFut => {
            let stream: BoxStream<'static, Result<u64, BoxErr>> = source.map(item).boxed();
            executor.spawn_non_futures_executor(1, on_close, stream);
        },
        _ => {
            let stream: BoxStream<'static, u64> = source.boxed();
            executor.spawn_non_futures_non_fallibles_executor(1, on_close, stream);
        },
    }
    loop {
        let notified = seen.notified();
        if result.lock().unwrap().is_some() { break; }
        notified.await;
    }
    let (ok, timed_out, failed) = result.lock().unwrap().unwrap();
    LongOutcome { n, errs, ok, timed_out, failed, err_callbacks: err_callbacks.load(SeqCst), callbacks: callbacks.load(SeqCst) }
}

pub struct C11Long;
impl Property for C11Long {
    type Case = LongCase;
    fn part(&self) -> &'static str { "executor-accounting-long" }
    fn strategy(&self, _tier: Tier) -> BoxedStrategy<LongCase> {
        (prop_oneof![Just(ExecKind::Fall), Just(ExecKind::NonFut), Just(ExecKind::Plain)], 100u32..50_000, prop_oneof![Just(0u32), 1000u32..100_000], prop_oneof![Just(Rt::CurrentPaused), Just(Rt::Multi2)])
            .prop_map(|(exec, extra, err_every, rt)| LongCase { exec, extra, err_every, rt }).boxed()
    }
    fn cases(&self, tier: Tier) -> u32 { match tier { Tier::Quick => 6, Tier::Thorough => 48 } }
    fn run(&self, case: &LongCase) -> RunReport {
        let c2 = case.clone();
        let end = run_case(case.rt, move || long_main(c2));
        let classes = vec![format!("fn:{}", case.exec.name()), format!("runtime:{}", case.rt.name()), if case.err_every > 0 && case.exec.fallible() { "with-failing-items".to_string() } else { "all-ok".to_string() }];
        let fingerprint = { use std::hash::{Hash, Hasher}; let mut h = std::collections::hash_map::DefaultHasher::new(); format!("{case:?}").hash(&mut h); h.finish() };
        let k = format!("long/{}", case.exec.name());
        let (verdict, summary) = match end {
            CaseEnd::Done(o) => {
                let summary = format!("{} items ({} failing) through {}: counters ok={} timed_out={} failed={}, error callback x{}, close callback x{}", o.n, o.errs, case.exec.name(), o.ok, o.timed_out, o.failed, o.err_callbacks, o.callbacks);
                let v = if o.ok as u64 + o.timed_out as u64 + o.failed as u64 != o.n {
                    Some((format!("{k}/counters-do-not-add-up"), format!("the pipeline yielded {} items but ok + timed-out + failed = {} + {} + {}", o.n, o.ok, o.timed_out, o.failed)))
                } else if o.failed as u64 != o.errs || o.timed_out != 0 {
                    Some((format!("{k}/counters-misattributed"), format!("{} items failed, none timed out; counters say failed={} timed_out={}", o.errs, o.failed, o.timed_out)))
                } else if case.exec.has_err_callback() && o.err_callbacks != o.errs {
                    Some((format!("{k}/error-callback-mismatch"), format!("{} items failed, the error callback ran {} times", o.errs, o.err_callbacks)))
                } else { None };
                (match v { None => Verdict::Pass, Some((signature, detail)) => Verdict::Violation { signature, detail: format!("{detail}; {summary}") } }, summary)
            },
            CaseEnd::Hang { decided } => (Verdict::Inconclusive(if decided { "no-progress(paused-clock)".into() } else { "watchdog".into() }), "did not finish".into()),
            CaseEnd::Panicked(p) => (Verdict::Violation { signature: format!("{k}/panic"), detail: format!("a task panicked: {p:?}") }, format!("panic {p:?}")),
        };
        RunReport { verdict, nontrivial: true, classes, fingerprint, trace: None, summary }
    }
    fn rule(&self) -> String {
        "generated: StreamExecutor::{spawn_fallibles_executor | spawn_non_futures_executor | spawn_non_futures_non_fallibles_executor} with metrics on x a pipeline of 2^24 + 100..49999 items x {no failing item | every k-th item fails, k 1000..99999} x runtime {current_thread, multi_thread(2)}; \
         oracle: in the close callback ok + timed-out + failed == number of items, failed == number of failing items, timed-out == 0, the error callback ran once per failing item; \
         non-trivial: every case (the ok counter has to pass 2^24, where a count carried through an f32 stops being exact)".into()
    }
}
