//! Controlled-schedule scenarios over the stand-alone containers: the two raw rings (C02), the non-blocking
//! stacks and queues (C18). One oracle family: linearizability against a bounded FIFO / LIFO (5.2) plus the
//! interval rule for "full" answers (5.3) where the container is built from a ring + pool.

use crate::driver::{pick, Property, RunReport, Tier, Verdict};
use crate::lin::{self, Act, FullRule, Model, Occupancy, Op};
use crate::payload;
use crate::sched::{EndState, Sched, Schedule, ThreadCtx};
use proptest::prelude::*;
use reactive_mutiny::ogre_std::ogre_queues::{
    atomic::atomic_move::AtomicMove,
    full_sync::full_sync_move::FullSyncMove,
    meta_container::MoveContainer,
    meta_publisher::MovePublisher,
    meta_subscriber::MoveSubscriber,
    OgreQueue,
};
use reactive_mutiny::ogre_std::ogre_stacks::OgreStack;
use serde::{Deserialize, Serialize};
use std::sync::{Arc, Mutex};

pub trait Container: Send + Sync {
    fn put(&self, v: u64) -> bool;
    fn get(&self) -> Option<u64>;
    fn len(&self) -> usize;
}

struct Ring<R>(R);
impl<R: MoveContainer<u64> + Send + Sync> Container for Ring<R> {
    fn put(&self, v: u64) -> bool { self.0.publish_movable(v).0.is_some() }
    fn get(&self) -> Option<u64> { self.0.consume_movable() }
    fn len(&self) -> usize { self.0.available_elements_count() }
}
/// the closure-based publishing API of the rings
struct RingSetter<R>(R);
impl<R: MoveContainer<u64> + Send + Sync> Container for RingSetter<R> {
    fn put(&self, v: u64) -> bool { self.0.publish(|slot| *slot = v, || false, |_| {}).is_none() }
    fn get(&self) -> Option<u64> { self.0.consume_movable() }
    fn len(&self) -> usize { self.0.available_elements_count() }
}
struct Queue<Q>(Q);
impl<Q: OgreQueue<u64> + Send + Sync> Container for Queue<Q> {
    fn put(&self, v: u64) -> bool { self.0.enqueue(v).is_none() }
    fn get(&self) -> Option<u64> { self.0.dequeue() }
    fn len(&self) -> usize { self.0.len() }
}
struct Stack<S>(S);
impl<S: OgreStack<u64> + Send + Sync> Container for Stack<S> {
    fn put(&self, v: u64) -> bool { self.0.push(v) }
    fn get(&self) -> Option<u64> { self.0.pop() }
    fn len(&self) -> usize { self.0.len() }
}

#[derive(Clone, Copy, Debug, PartialEq, Eq, Serialize, Deserialize)]
pub enum Kind {
    AtomicRing,
    AtomicRingSetter,
    FullSyncRing,
    FullSyncRingSetter,
    AtomicQueue,
    FullSyncQueue,
    AtomicStack,
    ParkingLotStack,
}

impl Kind {
    pub fn model(self) -> Model { match self { Kind::AtomicStack | Kind::ParkingLotStack => Model::Lifo, _ => Model::Fifo } }
    pub fn is_stack(self) -> bool { self.model() == Model::Lifo }
}

type AStack<const N: usize> = reactive_mutiny::ogre_std::ogre_stacks::non_blocking_atomic_stack::Stack<u64, N, false, false>;
type PStack<const N: usize> = reactive_mutiny::ogre_std::ogre_stacks::non_blocking_parking_lot_stack::Stack<u64, N, false, false>;
type AQueue<const N: usize> = reactive_mutiny::ogre_std::ogre_queues::atomic::NonBlockingQueue<u64, N, 0>;
type FQueue<const N: usize> = reactive_mutiny::ogre_std::ogre_queues::full_sync::NonBlockingQueue<u64, N, 0>;

// the stacks hold plain (non-atomic) fields mutated through `&self`
struct ForceSync<T>(T);
unsafe impl<T> Send for ForceSync<T> {}
unsafe impl<T> Sync for ForceSync<T> {}
impl<S: OgreStack<u64>> OgreStack<u64> for ForceSync<S> {
    fn new(name: String) -> Self { ForceSync(S::new(name)) }
    fn push(&self, e: u64) -> bool { self.0.push(e) }
    fn pop(&self) -> Option<u64> { self.0.pop() }
    fn len(&self) -> usize { self.0.len() }
    fn is_empty(&self) -> bool { self.0.is_empty() }
    fn buffer_size(&self) -> usize { self.0.buffer_size() }
    fn debug_enabled(&self) -> bool { self.0.debug_enabled() }
    fn metrics_enabled(&self) -> bool { self.0.metrics_enabled() }
    fn stack_name(&self) -> &str { self.0.stack_name() }
    fn implementation_name(&self) -> &str { self.0.implementation_name() }
}
struct ForceSyncQ<T>(T);
unsafe impl<T> Send for ForceSyncQ<T> {}
unsafe impl<T> Sync for ForceSyncQ<T> {}
impl<Q: OgreQueue<u64>> OgreQueue<u64> for ForceSyncQ<Q> {
    fn new<S: Into<String>>(name: S) -> Self { ForceSyncQ(Q::new(name)) }
    fn enqueue(&self, e: u64) -> Option<u64> { self.0.enqueue(e) }
    fn dequeue(&self) -> Option<u64> { self.0.dequeue() }
    fn len(&self) -> usize { self.0.len() }
    fn max_size(&self) -> usize { self.0.max_size() }
    fn debug_enabled(&self) -> bool { self.0.debug_enabled() }
    fn metrics_enabled(&self) -> bool { self.0.metrics_enabled() }
    fn queue_name(&self) -> &str { self.0.queue_name() }
    fn implementation_name(&self) -> &str { self.0.implementation_name() }
    fn interrupt(&self) { self.0.interrupt() }
}

pub fn make(kind: Kind, cap: usize) -> Arc<dyn Container> {
    macro_rules! by_cap {
        ($n:ident => $e:expr) => {
            match cap {
                2 => { const $n: usize = 2; Arc::new($e) as Arc<dyn Container> },
                4 => { const $n: usize = 4; Arc::new($e) as Arc<dyn Container> },
                8 => { const $n: usize = 8; Arc::new($e) as Arc<dyn Container> },
                16 => { const $n: usize = 16; Arc::new($e) as Arc<dyn Container> },
                _ => panic!("unsupported capacity {cap}"),
            }
        }
    }
    match kind {
        Kind::AtomicRing         => by_cap!(N => Ring(AtomicMove::<u64, N>::new())),
        Kind::AtomicRingSetter   => by_cap!(N => RingSetter(AtomicMove::<u64, N>::new())),
        Kind::FullSyncRing       => by_cap!(N => Ring(FullSyncMove::<u64, N>::new())),
        Kind::FullSyncRingSetter => by_cap!(N => RingSetter(FullSyncMove::<u64, N>::new())),
        Kind::AtomicQueue        => by_cap!(N => Queue(ForceSyncQ(AQueue::<N>::new("q")))),
        Kind::FullSyncQueue      => by_cap!(N => Queue(ForceSyncQ(FQueue::<N>::new("q")))),
        Kind::AtomicStack        => by_cap!(N => Stack(ForceSync(AStack::<N>::new("s".to_string())))),
        Kind::ParkingLotStack    => by_cap!(N => Stack(ForceSync(PStack::<N>::new("s".to_string())))),
    }
}

#[derive(Clone, Copy, Debug, PartialEq, Eq, Serialize, Deserialize)]
pub enum Step { Put, Get }

#[derive(Clone, Debug, Serialize, Deserialize)]
pub struct Case {
    pub kind:     Kind,
    pub cap:      u8,
    /// sequence origin of the ring counters (0: fresh)
    pub origin:   u32,
    pub prefill:  u8,
    pub threads:  Vec<Vec<Step>>,
    pub schedule: Schedule,
}

pub fn schedule_strategy(threads: usize, est_len: u32) -> BoxedStrategy<Schedule> {
    let n = threads as u8;
    prop_oneof![
        4 => proptest::collection::vec((0u32..24, 0u8..n), 0..8).prop_map(|deltas| {
            let mut step = 0u32;
            Schedule::Sparse(deltas.into_iter().map(|(d, t)| { step += d + 1; (step, t) }).collect())
        }),
        2 => (any::<u64>(), 1u8..5).prop_map(move |(seed, depth)| Schedule::Pct { seed, depth, est_len }),
        2 => (any::<u64>(), prop_oneof![Just(64u16), Just(200), Just(500)]).prop_map(|(seed, per_1024)| Schedule::Random { seed, per_1024 }),
    ].boxed()
}

fn scripts_strategy(max_threads: usize, max_ops: usize, cap: u8) -> BoxedStrategy<(u8, Vec<Vec<Step>>)> {
    // bursts biased towards the full and the empty boundaries: prefill in {0, 1, cap-1, cap}
    let prefill = prop_oneof![Just(0u8), Just(1u8), Just(cap - 1), Just(cap)];
    let step = prop_oneof![Just(Step::Put), Just(Step::Get)];
    let thread = proptest::collection::vec(step, 1..=max_ops);
    (prefill, proptest::collection::vec(thread, 2..=max_threads)).boxed()
}

/// structure-aware decoding of fuzzer bytes into a case of `case_strategy`'s domain
pub fn decode_case(u: &mut arbitrary::Unstructured<'_>, kinds: &'static [Kind], caps: &'static [u8], max_threads: usize, max_ops: usize, origins: bool) -> Option<Case> {
    let b = |u: &mut arbitrary::Unstructured<'_>| -> u8 { u.arbitrary::<u8>().unwrap_or(0) };
    let kind = kinds[b(u) as usize % kinds.len()];
    let cap = caps[b(u) as usize % caps.len()];
    let origin = if origins { let x = b(u); if x < 150 { 0 } else { u32::MAX - (x as u32 % 24) } } else { 0 };
    let prefill = match b(u) % 4 { 0 => 0, 1 => 1, 2 => cap - 1, _ => cap };
    let n = 2 + b(u) as usize % (max_threads - 1);
    let threads: Vec<Vec<Step>> = (0..n).map(|_| { let k = 1 + b(u) as usize % max_ops; (0..k).map(|_| if b(u) & 1 == 0 { Step::Put } else { Step::Get }).collect() }).collect();
    let schedule = match b(u) % 8 {
        0..=3 => { let k = b(u) % 8; let mut step = 0u32; Schedule::Sparse((0..k).map(|_| { step += b(u) as u32 % 24 + 1; (step, b(u) % n as u8) }).collect()) },
        4 | 5 => Schedule::Pct { seed: u.arbitrary::<u64>().unwrap_or(1), depth: 1 + b(u) % 4, est_len: threads.iter().map(|t| t.len() as u32 * 8).sum::<u32>() + 8 },
        _ => Schedule::Random { seed: u.arbitrary::<u64>().unwrap_or(1), per_1024: [64u16, 200, 500][b(u) as usize % 3] },
    };
    Some(Case { kind, cap, origin, prefill, threads, schedule })
}

pub fn case_strategy(kinds: &'static [Kind], caps: &'static [u8], max_threads: usize, max_ops: usize, origins: bool) -> BoxedStrategy<Case> {
    (any::<u16>(), any::<u16>())
        .prop_flat_map(move |(ki, ci)| {
            let kind = pick(kinds, ki);
            let cap = pick(caps, ci);
            let origin = if origins {
                prop_oneof![3 => Just(0u32), 2 => (0u32..24).prop_map(|d| u32::MAX - d)].boxed()
            } else {
                Just(0u32).boxed()
            };
            (Just(kind), Just(cap), origin, scripts_strategy(max_threads, max_ops, cap))
        })
        .prop_flat_map(|(kind, cap, origin, (prefill, threads))| {
            let est: u32 = threads.iter().map(|t| t.len() as u32 * 8).sum::<u32>() + 8;
            let n = threads.len();
            (Just(kind), Just(cap), Just(origin), Just(prefill), Just(threads), schedule_strategy(n, est))
        })
        .prop_map(|(kind, cap, origin, prefill, threads, schedule)| Case { kind, cap, origin, prefill, threads, schedule })
        .boxed()
}

pub struct Executed {
    pub ops:      Vec<Op>,
    pub end:      EndState,
    pub trace:    Vec<(u32, u8)>,
    pub inside:   u32,
    pub len_at_end: usize,
    pub drained:  Vec<u64>,
    pub prefill:  Vec<u64>,
}

pub fn execute(case: &Case) -> Executed {
    let cap = case.cap as usize;
    reactive_mutiny::verif::set_sequence_origin(case.origin);
    let container = make(case.kind, cap);
    let mut container = Some(container);
    reactive_mutiny::verif::set_sequence_origin(0);
    let mut prefill = vec![];
    {
        let c2 = Arc::clone(container.as_ref().unwrap());
        let n = case.prefill.min(case.cap);
        match crate::sched::guarded(5_000, move || { let mut ok = vec![]; for i in 0..n { let v = payload::plain(200, i as u32); if c2.put(v) { ok.push(v); } else { break; } } ok }) {
            Ok(ok) if ok.len() == n as usize => prefill = ok,
            Ok(ok) => { std::mem::forget(container.take()); return Executed { ops: vec![], end: EndState::Panicked { tid: 255, msg: format!("a fresh container of capacity {} rejected insertion #{}", case.cap, ok.len() + 1) }, trace: vec![], inside: 0, len_at_end: 0, drained: vec![], prefill: ok }; },
            Err(end) => { std::mem::forget(container.take()); return Executed { ops: vec![], end, trace: vec![], inside: 0, len_at_end: 0, drained: vec![], prefill: vec![] }; },
        }
    }
    let log: Arc<Mutex<Vec<Op>>> = Arc::new(Mutex::new(vec![]));
    let sched = Sched::new(case.threads.len(), case.schedule.clone(), 20_000);
    let bodies: Vec<Box<dyn FnOnce(&ThreadCtx) + Send>> = case.threads.iter().enumerate().map(|(t, script)| {
        let script = script.clone();
        let container = Arc::clone(container.as_ref().unwrap());
        let log = Arc::clone(&log);
        Box::new(move |ctx: &ThreadCtx| {
            let mut seq = 0u32;
            for step in script {
                ctx.point("op.call");
                let call = ctx.tick();
                let act = ctx.op(|| match step {
                    Step::Put => { seq += 1; let v = payload::plain(t as u8, seq); Act::Put { v, ok: container.put(v) } },
                    Step::Get => Act::Get { got: container.get() },
                });
                let ret = ctx.tick();
                log.lock().unwrap().push(Op { thread: t as u8, act, call, ret });
            }
        }) as Box<dyn FnOnce(&ThreadCtx) + Send>
    }).collect();
    let outcome = sched.execute(bodies);
    let ops = log.lock().unwrap().clone();
    let mut drained = vec![];
    let mut len_at_end = 0;
    let mut end = outcome.end.clone();
    if outcome.end == EndState::Completed {
        let c2 = Arc::clone(container.as_ref().unwrap());
        match crate::sched::guarded(10_000, move || { let len = c2.len(); let mut d = vec![]; while let Some(v) = c2.get() { d.push(v); if d.len() > 4 * cap + 8 { break; } } (len, d) }) {
            Ok((len, d)) => { len_at_end = len; drained = d; },
            Err(e) => { end = match e { EndState::Stall { .. } => EndState::Stall { stuck: vec![(99, 0)], parked: vec![] }, other => other }; std::mem::forget(container.take()); },
        }
    } else {
        // aborted runs may leave the container in a state its destructor cannot cope with
        std::mem::forget(container.take());
    }
    if end == EndState::Completed {
        // the destructor drains what is left: guarded as well
        struct Leak(Option<Arc<dyn Container>>);
        impl Drop for Leak { fn drop(&mut self) { if std::thread::panicking() { std::mem::forget(self.0.take()); } } }
        let c = container.take();
        if let Err(e) = crate::sched::guarded(10_000, move || { let mut l = Leak(c); drop(l.0.take()); }) {
            end = match e { EndState::Stall { .. } => EndState::Stall { stuck: vec![(98, 0)], parked: vec![] }, other => other };
        }
    }
    Executed { ops, end, trace: outcome.trace, inside: outcome.switches_inside_ops, len_at_end, drained, prefill }
}

/// The oracle: `None` if the history is fine, otherwise (signature, detail)
pub fn judge(case: &Case, x: &Executed) -> Option<(String, String)> {
    let kind = case.kind;
    let cap = case.cap as usize;
    let k = format!("{:?}", kind);
    // integrity: every value obtained is an intact payload that somebody inserted
    for o in &x.ops {
        if let Act::Get { got: Some(v) } = o.act {
            if payload::decode(v).is_none() { return Some((format!("{k}/corrupt-value"), format!("thread {} obtained a corrupted value {v:#x}", o.thread))); }
        }
    }
    // full history: prefill (before everything), the logged operations, the final drain (after everything)
    let last = x.ops.iter().map(|o| o.ret).max().unwrap_or(0) + 10;
    let mut full_hist = x.ops.clone();
    let mut t = last;
    for v in &x.drained {
        full_hist.push(Op { thread: 250, act: Act::Get { got: Some(*v) }, call: t, ret: t + 1 });
        t += 2;
    }
    full_hist.push(Op { thread: 250, act: Act::Get { got: None }, call: t, ret: t + 1 });
    if x.drained.len() != x.len_at_end {
        return Some((format!("{k}/len-at-quiescence"), format!("reported length {} at quiescence, but {} elements could be taken out", x.len_at_end, x.drained.len())));
    }
    let full_rule = if kind.is_stack() { FullRule::Exact(cap) } else { FullRule::Ignore };
    if !lin::linearizable(&full_hist, kind.model(), full_rule, &x.prefill) {
        // diagnose
        let sub = diagnose(&full_hist, &x.prefill);
        return Some((format!("{k}/not-linearizable/{sub}"), format!("no linearization against a bounded {:?} of capacity {cap}; prefill={:?}; history={}", kind.model(), x.prefill.iter().map(|v| payload::show(*v)).collect::<Vec<_>>(), render(&full_hist))));
    }
    if !kind.is_stack() {
        // 5.3: rejected insertions
        let got_ret = |v: u64| full_hist.iter().find(|o| o.act == Act::Get { got: Some(v) }).map(|o| o.ret);
        for (i, o) in x.ops.iter().enumerate() {
            if let Act::Put { ok: false, .. } = o.act {
                let mut occ: Vec<Occupancy> = x.prefill.iter().map(|v| Occupancy { from: 0, to: got_ret(*v).filter(|r| *r < last).unwrap_or(u64::MAX) }).collect();
                for (j, p) in x.ops.iter().enumerate() {
                    if i == j { continue; }
                    match p.act {
                        Act::Put { v, ok: true } => occ.push(Occupancy { from: p.call, to: got_ret(v).filter(|r| *r < last).unwrap_or(u64::MAX) }),
                        Act::Put { ok: false, .. } => occ.push(Occupancy { from: p.call, to: p.ret }),
                        _ => {},
                    }
                }
                if !lin::reject_legit(o.call, o.ret, &occ, cap) {
                    return Some((format!("{k}/spurious-full"), format!("thread {} was answered 'full' over [{},{}] although fewer than {cap} slots could have been taken; history={}", o.thread, o.call, o.ret, render(&full_hist))));
                }
            }
        }
        // never more than `cap` pending: #inserted-and-returned - #removals-started <= cap at every instant
        let mut events: Vec<(u64, i32)> = vec![];
        for o in &x.ops {
            match o.act {
                Act::Put { ok: true, .. } => events.push((o.ret, 1)),
                Act::Get { got: Some(_) } => events.push((o.call, -1)),
                _ => {},
            }
        }
        events.sort();
        let mut pending = x.prefill.len() as i32;
        for (at, d) in events {
            pending += d;
            if pending > cap as i32 {
                return Some((format!("{k}/over-capacity"), format!("{pending} elements pending at instant {at} with capacity {cap}; history={}", render(&full_hist))));
            }
        }
    }
    None
}

fn diagnose(hist: &[Op], prefill: &[u64]) -> &'static str {
    use std::collections::HashMap;
    let mut puts: HashMap<u64, usize> = HashMap::new();
    for v in prefill { *puts.entry(*v).or_insert(0) += 1; }
    let mut gets: HashMap<u64, usize> = HashMap::new();
    for o in hist {
        match o.act {
            Act::Put { v, ok: true } => *puts.entry(v).or_insert(0) += 1,
            Act::Get { got: Some(v) } => *gets.entry(v).or_insert(0) += 1,
            _ => {},
        }
    }
    if gets.iter().any(|(v, _)| !puts.contains_key(v)) { return "invented"; }
    if gets.iter().any(|(_, n)| *n > 1) { return "duplicated"; }
    if puts.iter().any(|(v, _)| !gets.contains_key(v)) { return "lost"; }
    // everything in, everything out exactly once: it is an ordering / emptiness problem
    let nones = hist.iter().filter(|o| o.thread != 250 && o.act == Act::Get { got: None }).count();
    if nones > 0 {
        // would it be linearizable without the "nothing" answers?
        let without: Vec<Op> = hist.iter().copied().filter(|o| o.act != Act::Get { got: None } || o.thread == 250).collect();
        let model_fifo = lin::linearizable(&without, Model::Fifo, FullRule::Ignore, prefill) || lin::linearizable(&without, Model::Lifo, FullRule::Ignore, prefill);
        if model_fifo { return "false-empty"; }
    }
    "order"
}

pub fn render(hist: &[Op]) -> String {
    let mut h: Vec<&Op> = hist.iter().collect();
    h.sort_by_key(|o| o.call);
    h.iter().map(|o| {
        let a = match o.act {
            Act::Put { v, ok } => format!("put({})={}", payload::show(v), if ok { "ok" } else { "FULL" }),
            Act::Get { got: Some(v) } => format!("get={}", payload::show(v)),
            Act::Get { got: None } => "get=NOTHING".to_string(),
        };
        format!("T{}[{}..{}]{}", o.thread, o.call, o.ret, a)
    }).collect::<Vec<_>>().join(" ")
}

pub fn fingerprint(case: &Case, x: &Executed) -> u64 {
    use std::hash::{Hash, Hasher};
    let mut h = std::collections::hash_map::DefaultHasher::new();
    format!("{:?}{}{}{:?}", case.kind, case.cap, case.prefill, case.threads).hash(&mut h);
    x.trace.hash(&mut h);
    h.finish()
}

pub fn report(case: &Case) -> RunReport {
    let x = execute(case);
    let mut classes = vec![format!("kind:{:?}", case.kind), format!("cap:{}", case.cap)];
    if case.origin != 0 { classes.push("origin-near-wrap".into()); }
    let fp = fingerprint(case, &x);
    let summary = render(&x.ops);
    match &x.end {
        EndState::Completed => {},
        EndState::Blocked { .. } => return RunReport { verdict: Verdict::Inconclusive("blocked-in-uninstrumented-wait".into()), nontrivial: false, classes, fingerprint: fp, trace: Some(x.trace), summary },
        EndState::Budget => return RunReport { verdict: Verdict::Inconclusive("step-budget".into()), nontrivial: false, classes, fingerprint: fp, trace: Some(x.trace), summary },
        EndState::Stall { stuck, .. } => {
            return RunReport { verdict: Verdict::Violation { signature: format!("{:?}/stall", case.kind), detail: format!("no thread can make progress; spinning threads {:?}; history so far: {}", stuck, summary) },
                               nontrivial: true, classes, fingerprint: fp, trace: Some(x.trace), summary };
        },
        EndState::Panicked { tid, msg } => {
            return RunReport { verdict: Verdict::Violation { signature: format!("{:?}/panic", case.kind), detail: format!("thread {tid} panicked: {msg}; history so far: {summary}") },
                               nontrivial: true, classes, fingerprint: fp, trace: Some(x.trace), summary };
        },
    }
    let full_hit = x.ops.iter().any(|o| matches!(o.act, Act::Put { ok: false, .. }));
    let empty_hit = x.ops.iter().any(|o| matches!(o.act, Act::Get { got: None }));
    let overlap = x.inside > 0;
    if full_hit { classes.push("full-hit".into()); }
    if empty_hit { classes.push("empty-hit".into()); }
    if full_hit && empty_hit { classes.push("both-in-one-run".into()); }
    if overlap { classes.push("overlap".into()); }
    let nontrivial = overlap && (full_hit || empty_hit);
    let verdict = match judge(case, &x) {
        None => Verdict::Pass,
        Some((signature, detail)) => Verdict::Violation { signature, detail },
    };
    RunReport { verdict, nontrivial, classes, fingerprint: fp, trace: Some(x.trace), summary }
}

/// C02, part "rings": the two raw ring buffers
pub struct Rings;
static RING_KINDS: [Kind; 4] = [Kind::AtomicRing, Kind::AtomicRingSetter, Kind::FullSyncRing, Kind::FullSyncRingSetter];
static RING_CAPS: [u8; 3] = [2, 2, 4];

impl Property for Rings {
    type Case = Case;
    fn part(&self) -> &'static str { "rings-sched" }
    fn strategy(&self, _tier: Tier) -> BoxedStrategy<Case> { case_strategy(&RING_KINDS, &RING_CAPS, 4, 3, true) }
    fn decode(&self, u: &mut arbitrary::Unstructured<'_>) -> Option<Case> { decode_case(u, &RING_KINDS, &RING_CAPS, 4, 3, true) }
    fn cases(&self, tier: Tier) -> u32 { match tier { Tier::Quick => 20_000, Tier::Thorough => 300_000 } }
    fn run(&self, case: &Case) -> RunReport { report(case) }
    fn rule(&self) -> String {
        "generated: ring kind x capacity {2,4} x counter origin {0, just below 2^32} x prefill {0,1,cap-1,cap} x 2..4 threads of 1..3 put/get x schedule (sparse preemptions | PCT | random walk); \
         oracle: WGL linearizability vs bounded FIFO incl. final drain + interval rule for 'full' + pending<=capacity + len at quiescence; \
         non-trivial: a thread was switched out inside an operation AND a 'full' or 'nothing' answer occurred; distinct by (scenario, realised trace)".into()
    }
    fn schedule_mut<'a>(&self, case: &'a mut Case) -> Option<&'a mut Schedule> { Some(&mut case.schedule) }
}

/// C18: stand-alone stacks and queues under the controlled scheduler
pub struct Standalone;
static SA_KINDS: [Kind; 4] = [Kind::AtomicStack, Kind::AtomicQueue, Kind::FullSyncQueue, Kind::ParkingLotStack];
static SA_CAPS: [u8; 4] = [2, 2, 4, 8];

impl Property for Standalone {
    type Case = Case;
    fn part(&self) -> &'static str { "standalone-sched" }
    fn strategy(&self, _tier: Tier) -> BoxedStrategy<Case> { case_strategy(&SA_KINDS, &SA_CAPS, 4, 4, true) }
    fn decode(&self, u: &mut arbitrary::Unstructured<'_>) -> Option<Case> { decode_case(u, &SA_KINDS, &SA_CAPS, 4, 4, true) }
    fn cases(&self, tier: Tier) -> u32 { match tier { Tier::Quick => 20_000, Tier::Thorough => 300_000 } }
    fn run(&self, case: &Case) -> RunReport { report(case) }
    fn rule(&self) -> String {
        "generated: container kind (atomic-flag stack, atomic queue, full-sync queue, parking-lot stack) x capacity {2,4,8} x prefill {0,1,cap-1,cap} x 2..4 threads of 1..4 push/pop (enqueue/dequeue) x schedule; \
         the parking-lot stack's mutex is not instrumented, so under this engine its operations are atomic (its interleavings are explored by the free-running part); \
         oracle: WGL linearizability vs bounded LIFO (exact 'full') / FIFO (+ interval rule for 'full'), final drain included; \
         non-trivial: a thread was switched out inside an operation AND a 'full' or 'empty' answer occurred".into()
    }
    fn schedule_mut<'a>(&self, case: &'a mut Case) -> Option<&'a mut Schedule> { Some(&mut case.schedule) }
}

/// C15, concurrent half: the same (scripts, schedule) executed from sequence origin 0 and from an origin just below 2^32. Under the controlled scheduler
/// an execution is a pure function of (scenario, schedule), and code that is oblivious of the absolute counter values performs the same sequence of
/// atomic operations from both origins -- so the two histories must be identical, operation by operation (answers, values, final drain, reported length).
pub struct WrapDiffSched;
static WD_KINDS: [Kind; 6] = [Kind::AtomicRing, Kind::AtomicRingSetter, Kind::FullSyncRing, Kind::FullSyncRingSetter, Kind::AtomicQueue, Kind::FullSyncQueue];
static WD_CAPS: [u8; 3] = [2, 4, 8];

impl Property for WrapDiffSched {
    type Case = Case;
    fn part(&self) -> &'static str { "wrap-diff-sched" }
    fn strategy(&self, _tier: Tier) -> BoxedStrategy<Case> {
        (case_strategy(&WD_KINDS, &WD_CAPS, 4, 4, true), 0u32..24).prop_map(|(mut c, d)| { if c.origin == 0 { c.origin = u32::MAX - d; } c }).boxed()
    }
    fn cases(&self, tier: Tier) -> u32 { match tier { Tier::Quick => 12_000, Tier::Thorough => 150_000 } }
    fn run(&self, case: &Case) -> RunReport {
        let mut fresh = case.clone();
        fresh.origin = 0;
        let a = execute(&fresh);
        let b = execute(case);
        let k = format!("wrap-diff-sched/{:?}", case.kind);
        let classes = vec![format!("kind:{:?}", case.kind), format!("cap:{}", case.cap), format!("threads:{}", case.threads.len())];
        let fingerprint = { use std::hash::{Hash, Hasher}; let mut h = std::collections::hash_map::DefaultHasher::new(); format!("{:?}{}{}{:?}", case.kind, case.cap, case.prefill, case.threads).hash(&mut h); b.trace.hash(&mut h); h.finish() };
        let key = |x: &Executed| { let mut v: Vec<(u8, u64, Act)> = x.ops.iter().map(|o| (o.thread, o.call, o.act)).collect(); v.sort_by_key(|e| (e.0, e.1)); v.into_iter().map(|e| (e.0, e.2)).collect::<Vec<_>>() };
        let summary = format!("origin 0: {} | origin {:#x}: {}", render(&a.ops), case.origin, render(&b.ops));
        // a step budget / blocked end in either run: nothing to compare
        let odd = |e: &EndState| matches!(e, EndState::Budget | EndState::Blocked { .. });
        if odd(&a.end) || odd(&b.end) { return RunReport { verdict: Verdict::Inconclusive("step-budget".into()), nontrivial: false, classes, fingerprint, trace: Some(b.trace.clone()), summary }; }
        let verdict = if std::mem::discriminant(&a.end) != std::mem::discriminant(&b.end) {
            Verdict::Violation { signature: format!("{k}/different-end"), detail: format!("from origin 0 the run ended {:?}, from origin {:#x} it ended {:?}; {summary}", a.end, case.origin, b.end) }
        } else if key(&a) != key(&b) || a.drained != b.drained || a.len_at_end != b.len_at_end {
            Verdict::Violation { signature: format!("{k}/different-answer"), detail: format!("the same scripts under the same schedule answer differently from origin 0 and from origin {:#x} (final drain {:?} vs {:?}, reported length {} vs {}); {summary}",
                                 case.origin, a.drained.iter().map(|v| payload::show(*v)).collect::<Vec<_>>(), b.drained.iter().map(|v| payload::show(*v)).collect::<Vec<_>>(), a.len_at_end, b.len_at_end) }
        } else { Verdict::Pass };
        let crossed = case.threads.iter().map(|t| t.len()).sum::<usize>() as u32 + case.prefill as u32 > u32::MAX - case.origin;
        RunReport { verdict, nontrivial: b.inside > 0 && crossed, classes, fingerprint, trace: Some(b.trace.clone()), summary }
    }
    fn rule(&self) -> String {
        "generated: the two rings (value- and setter-based publishing) and the two non-blocking queues x capacity {2,4,8} x prefill {0,1,cap-1,cap} x 2..4 threads of 1..4 put/get x schedule (sparse preemptions | PCT | random walk) x a sequence origin within 24 of the u32 wrap; each case is executed twice under the controlled scheduler -- from origin 0 and from that origin -- with the same schedule; \
         oracle (differential): every operation's answer and value, the final drain and the reported length are identical in the two executions, and both end the same way (completed / stall / panic); \
         non-trivial: a thread was switched out inside an operation AND the script can carry a counter across the wrap".into()
    }
    fn schedule_mut<'a>(&self, case: &'a mut Case) -> Option<&'a mut Schedule> { Some(&mut case.schedule) }
}
