//! C09 -- the log (mmap) Multi channel under the controlled scheduler: concurrent publishers, subscription calls
//! (new only / old+new split / old+new joined) issued by listener threads at generated points, listeners consuming at
//! generated speeds. Oracle: one total log order (established afterwards by an auditor replay), full ordered replay for
//! joined listeners, one split point for old/new pairs, gapless suffix for new-only listeners, stable references.

use crate::chan::{self, Chan, ChanKind, Item, StreamH};
use crate::driver::{Property, RunReport, Tier, Verdict};
use crate::payload::{self, Tracked};
use crate::props::chanrun::{sparse_or_any_schedule, LeakOnUnwind};
use crate::sched::{noop_waker, EndState, ParkResult, Sched, Schedule, ThreadCtx};
use proptest::collection::vec;
use proptest::prelude::*;
use serde::{Deserialize, Serialize};
use std::collections::{BTreeMap, HashMap};
use std::sync::{Arc, Mutex};
use std::task::Poll;

#[derive(Clone, Copy, Debug, PartialEq, Eq, Serialize, Deserialize)]
pub enum LOp { Send, SendWith, Pause(u8) }

#[derive(Clone, Copy, Debug, PartialEq, Eq, Serialize, Deserialize)]
pub enum Sub { New, Split, Joined }

#[derive(Clone, Debug, Serialize, Deserialize)]
pub struct Listener {
    pub sub:       Sub,
    /// subscribed during the sequential set-up (after the prefill), not by its own thread during the run
    pub upfront:   bool,
    /// scheduling points before the subscription call
    pub pause:     u8,
    /// scheduling points an item is held for
    pub hold:      u8,
    /// split pairs: poll the two streams alternately (true) or the old one to its end first (false)
    pub alternate: bool,
}

#[derive(Clone, Debug, Serialize, Deserialize)]
pub struct LogCase {
    pub max_streams: u8,
    pub prefill:     u8,
    pub publishers:  Vec<Vec<LOp>>,
    pub listeners:   Vec<Listener>,
    pub schedule:    Schedule,
    /// 0: none; k: another log channel whose name differs only in punctuation is created next to this one (after the prefill, alive until the
    /// end of the run) and k-1 events of its own are published into it: a different name is a different channel, this one's history is unaffected
    #[serde(default)]
    pub sibling:     u8,
}

#[derive(Clone, Copy, Debug, PartialEq, Eq)]
pub enum Role { NewOnly, Old, New, Joined }

#[derive(Clone, Debug)]
pub struct PubRec { pub thread: u8, pub val: u64, pub call: u64, pub ret: u64, pub accepted: bool, pub with: bool }

#[derive(Clone, Debug)]
pub struct Yield { pub val: u64, pub addr: usize, pub intact: bool, pub drain: bool }

#[derive(Clone, Debug)]
pub struct StreamRec {
    pub listener: usize,
    pub role:     Role,
    pub id:       u32,
    pub yields:   Vec<Yield>,
    pub ended:    bool,
    /// polls that answered Pending during the run
    pub pendings: u32,
    pub yielded_after_end: bool,
}

#[derive(Clone, Debug, Default)]
pub struct SubRec { pub call: u64, pub ret: u64, pub done: bool }

pub struct LogRun {
    pub end:     EndState,
    pub trace:   Vec<(u32, u8)>,
    pub inside:  u32,
    pub pubs:    Vec<PubRec>,
    pub subs:    Vec<SubRec>,
    pub streams: Vec<StreamRec>,
    /// the auditor's replay of the whole log after the run: (val, addr)
    pub audit:   Vec<(u64, usize)>,
    pub audit_ended_ok: bool,
    /// references re-read at the very end that no longer show the value they were yielded with
    pub changed_refs: Vec<(u64, u64)>,
    pub cur_ops: Vec<String>,
}

const T0: u64 = 100;     // in-run stamps start here; prefill sends are stamped 1.., upfront subscriptions 50

#[derive(Default)]
struct Log { pubs: Vec<PubRec>, subs: Vec<SubRec>, streams: Vec<StreamRec>, cur_ops: Vec<String> }

type Held = Vec<(u64, Item)>;
type Live = Vec<(usize, Box<dyn StreamH>)>;       // (index into log.streams, stream)

fn subscribe(chan: &dyn Chan, sub: Sub) -> Vec<(Role, Box<dyn StreamH>)> {
    match sub {
        Sub::New => vec![(Role::NewOnly, chan.create_stream())],
        Sub::Joined => vec![(Role::Joined, chan.create_joined())],
        Sub::Split => { let (o, n) = chan.create_old_new(); vec![(Role::Old, o), (Role::New, n)] },
    }
}

fn poll_once(s: &mut Box<dyn StreamH>, waker: &std::task::Waker) -> Poll<Option<Item>> { s.poll(waker) }

pub fn execute(case: &LogCase) -> LogRun {
    let n_pub = case.publishers.len();
    let n_lis = case.listeners.len();
    let log = Arc::new(Mutex::new(Log { subs: vec![SubRec::default(); n_lis], cur_ops: vec![String::new(); n_pub + n_lis], ..Default::default() }));
    let mut run = LogRun { end: EndState::Completed, trace: vec![], inside: 0, pubs: vec![], subs: vec![], streams: vec![], audit: vec![], audit_ended_ok: true, changed_refs: vec![], cur_ops: vec![] };

    // --- set-up (guarded): channel, prefill, upfront subscriptions
    let (max_streams, n_prefill, sibling) = (case.max_streams, case.prefill, case.sibling);
    let upfront: Vec<Option<Sub>> = case.listeners.iter().map(|l| if l.upfront { Some(l.sub) } else { None }).collect();
    type Setup = (Arc<dyn Chan>, Vec<u64>, Vec<Vec<(Role, Box<dyn StreamH>)>>, Option<Arc<dyn Chan>>);
    let setup: Result<Setup, EndState> = crate::sched::guarded(20_000, move || {
        let chan = chan::make(ChanKind::MultiMmap, 2, max_streams, 0);
        let mut prefill = vec![];
        for i in 0..n_prefill {
            let v = payload::plain(200, i as u32 + 1);
            let r = if i % 2 == 0 { chan.send(v) } else { chan.send_with(v) };
            if r.accepted { prefill.push(v); }
        }
        let streams = upfront.iter().map(|u| match u { Some(sub) => subscribe(&*chan, *sub), None => vec![] }).collect::<Vec<_>>();
        let sib = if sibling > 0 {
            let sib = chan::make_mmap_sibling(sibling, max_streams);
            for i in 0..(sibling - 1) { let _ = sib.send(payload::plain(210, i as u32 + 1)); }
            Some(sib)
        } else { None };
        (chan, prefill, LeakOnUnwind::new(streams).take(), sib)
    });
    let (chan, prefill, upfront_streams, _sibling_chan) = match setup {
        Ok(s) => s,
        Err(end) => { run.end = end; run.cur_ops = vec!["set-up (create channel / prefill / upfront subscriptions)".into()]; return run; },
    };
    {
        let mut g = log.lock().unwrap();
        for (i, v) in prefill.iter().enumerate() {
            g.pubs.push(PubRec { thread: 200, val: *v, call: 2 * i as u64 + 1, ret: 2 * i as u64 + 2, accepted: true, with: i % 2 == 1 });
        }
        for (li, l) in case.listeners.iter().enumerate() { if l.upfront { g.subs[li] = SubRec { call: 50, ret: 50, done: true }; } }
    }
    let upfront_streams: Arc<Mutex<Vec<Option<Vec<(Role, Box<dyn StreamH>)>>>>> = Arc::new(Mutex::new(upfront_streams.into_iter().map(Some).collect()));
    let live_out: Arc<Mutex<Live>> = Arc::new(Mutex::new(vec![]));
    let held_out: Arc<Mutex<Held>> = Arc::new(Mutex::new(vec![]));

    let est_steps = 30_000;
    let sched = Sched::new(n_pub + n_lis, case.schedule.clone(), est_steps);
    let mut bodies: Vec<Box<dyn FnOnce(&ThreadCtx) + Send>> = vec![];
    for (pi, script) in case.publishers.iter().enumerate() {
        let script = script.clone();
        let chan = Arc::clone(&chan);
        let log = Arc::clone(&log);
        bodies.push(Box::new(move |ctx: &ThreadCtx| {
            let mut seq = 0u32;
            for op in &script {
                match *op {
                    LOp::Pause(n) => { log.lock().unwrap().cur_ops[pi] = "pause".into(); for _ in 0..n { ctx.point("pause"); } },
                    LOp::Send | LOp::SendWith => {
                        let with = *op == LOp::SendWith;
                        log.lock().unwrap().cur_ops[pi] = if with { "send_with".into() } else { "send".into() };
                        seq += 1;
                        let v = payload::plain(pi as u8, seq);
                        ctx.point("send.call");
                        let call = T0 + ctx.tick();
                        let r = ctx.op(|| if with { chan.send_with(v) } else { chan.send(v) });
                        let ret = T0 + ctx.tick();
                        log.lock().unwrap().pubs.push(PubRec { thread: pi as u8, val: v, call, ret, accepted: r.accepted && r.contract_ok, with });
                    },
                }
            }
            log.lock().unwrap().cur_ops[pi] = "done".into();
        }));
    }
    for (li, lis) in case.listeners.iter().enumerate() {
        let lis = lis.clone();
        let chan = Arc::clone(&chan);
        let log = Arc::clone(&log);
        let upfront_streams = Arc::clone(&upfront_streams);
        let live_out = Arc::clone(&live_out);
        let held_out = Arc::clone(&held_out);
        let tid = n_pub + li;
        bodies.push(Box::new(move |ctx: &ThreadCtx| {
            let got: Vec<(Role, Box<dyn StreamH>)> = if lis.upfront {
                upfront_streams.lock().unwrap()[li].take().expect("upfront streams")
            } else {
                log.lock().unwrap().cur_ops[tid] = "pause".into();
                for _ in 0..lis.pause { ctx.point("pause"); }
                log.lock().unwrap().cur_ops[tid] = format!("subscribe({:?})", lis.sub);
                ctx.point("subscribe.call");
                let call = T0 + ctx.tick();
                let s = LeakOnUnwind::new(ctx.op(|| subscribe(&*chan, lis.sub)));
                let ret = T0 + ctx.tick();
                log.lock().unwrap().subs[li] = SubRec { call, ret, done: true };
                s.take()
            };
            let mut mine: LeakOnUnwind<Vec<(usize, Box<dyn StreamH>, bool)>> = LeakOnUnwind::new(vec![]);
            {
                let mut g = log.lock().unwrap();
                for (role, s) in got {
                    g.streams.push(StreamRec { listener: li, role, id: s.id(), yields: vec![], ended: false, pendings: 0, yielded_after_end: false });
                    let idx = g.streams.len() - 1;
                    mine.push((idx, s, false));
                }
            }
            let mut held: LeakOnUnwind<Held> = LeakOnUnwind::new(vec![]);
            let waker = ctx.new_waker();
            let mut polls = 0u32;
            'outer: loop {
                let mut progressed = false;
                for k in 0..mine.len() {
                    if mine[k].2 { continue; }
                    loop {
                        log.lock().unwrap().cur_ops[tid] = "poll".into();
                        ctx.point("poll.call");
                        let r = { let s = &mut mine[k].1; ctx.op(|| poll_once(s, &waker)) };
                        polls += 1;
                        let idx = mine[k].0;
                        match r {
                            Poll::Ready(Some(item)) => {
                                progressed = true;
                                let (val, addr, intact) = (item.val(), item.addr(), item.intact());
                                log.lock().unwrap().streams[idx].yields.push(Yield { val, addr, intact, drain: false });
                                held.push((val, item));
                                log.lock().unwrap().cur_ops[tid] = "holding-item".into();
                                for _ in 0..lis.hold { ctx.point("hold"); }
                                if polls > 400 { break 'outer; }
                                if lis.alternate { break; }
                            },
                            Poll::Ready(None) => { mine[k].2 = true; log.lock().unwrap().streams[idx].ended = true; break; },
                            Poll::Pending => { log.lock().unwrap().streams[idx].pendings += 1; break; },
                        }
                    }
                }
                if mine.iter().all(|m| m.2) { break; }
                if !progressed {
                    log.lock().unwrap().cur_ops[tid] = "parked".into();
                    match ctx.park() { ParkResult::Woken => {}, ParkResult::Quiescent => break }
                }
                if polls > 400 { break; }
            }
            live_out.lock().unwrap().extend(mine.take().into_iter().map(|(i, s, _)| (i, s)));
            held_out.lock().unwrap().extend(held.take());
        }));
    }
    let outcome = sched.execute(bodies);
    run.end = outcome.end.clone();
    run.trace = outcome.trace;
    run.inside = outcome.switches_inside_ops;
    let take_log = |run: &mut LogRun| { let l = std::mem::take(&mut *log.lock().unwrap()); run.pubs = l.pubs; run.subs = l.subs; run.streams = l.streams; run.cur_ops = l.cur_ops; };
    if outcome.end != EndState::Completed {
        take_log(&mut run);
        std::mem::forget(std::mem::take(&mut *live_out.lock().unwrap()));
        std::mem::forget(std::mem::take(&mut *held_out.lock().unwrap()));
        std::mem::forget(std::mem::take(&mut *upfront_streams.lock().unwrap()));
        std::mem::forget(chan);
        return run;
    }

    // --- epilogue (guarded, sequential): drain every stream that has not ended (old streams excepted: they must end by themselves),
    //     drop the listeners' streams, replay the whole log through an auditor subscription, re-read every reference handed out
    let live = std::mem::take(&mut *live_out.lock().unwrap());
    let held = std::mem::take(&mut *held_out.lock().unwrap());
    let roles: Vec<(Role, bool)> = log.lock().unwrap().streams.iter().map(|s| (s.role, s.ended)).collect();
    let log2 = Arc::clone(&log);
    let chan2 = Arc::clone(&chan);
    let total_sent = log.lock().unwrap().pubs.len();
    type Epi = (Vec<(u64, usize)>, bool, Vec<(u64, u64)>);
    let epi: Result<Epi, EndState> = crate::sched::guarded(60_000, move || {
        let mut live = LeakOnUnwind::new(live);
        let mut held = LeakOnUnwind::new(held);
        let waker = noop_waker();
        for (idx, s) in live.iter_mut() {
            let (role, ended) = roles[*idx];
            if ended || role == Role::Old { continue; }
            for _ in 0..total_sent + 8 {
                match s.poll(&waker) {
                    Poll::Ready(Some(item)) => {
                        log2.lock().unwrap().streams[*idx].yields.push(Yield { val: item.val(), addr: item.addr(), intact: item.intact(), drain: true });
                        held.push((item.val(), item));
                    },
                    Poll::Ready(None) => { log2.lock().unwrap().streams[*idx].ended = true; break; },
                    Poll::Pending => break,
                }
            }
        }
        drop(live.take());
        // the auditor: a joined subscription on the now listener-less channel replays the whole log
        let mut audit = vec![];
        let mut ended_ok = true;
        {
            let mut a = chan2.create_joined();
            for _ in 0..total_sent + 8 {
                match a.poll(&waker) {
                    Poll::Ready(Some(item)) => { audit.push((item.val(), item.addr())); },
                    Poll::Ready(None) => { ended_ok = false; break; },
                    Poll::Pending => break,
                }
            }
        }
        let changed: Vec<(u64, u64)> = held.iter().filter(|(v, it)| it.val() != *v || !it.intact()).map(|(v, it)| (*v, it.val())).collect();
        drop(held.take());
        (audit, ended_ok, changed)
    });
    take_log(&mut run);
    match epi {
        Ok((audit, ok, changed)) => { run.audit = audit; run.audit_ended_ok = ok; run.changed_refs = changed; },
        Err(end) => { run.end = end; run.cur_ops.push("epilogue (drain / auditor replay)".into()); std::mem::forget(chan); return run; },
    }
    if let Err(end) = crate::sched::guarded(20_000, move || { let c = LeakOnUnwind::new(chan); drop(c.take()); }) {
        run.end = end; run.cur_ops.push("drop of the channel (teardown)".into());
    }
    run
}

impl LogRun {
    pub fn render(&self) -> String {
        let mut evs: Vec<(u64, String)> = vec![];
        for p in &self.pubs { evs.push((p.call, format!("P{}[{}..{}]{}({})={}", p.thread, p.call, p.ret, if p.with { "send_with" } else { "send" }, payload::show(p.val), if p.accepted { "ok" } else { "REJECTED" }))); }
        for (li, s) in self.subs.iter().enumerate() { if s.done { evs.push((s.call, format!("L{li}[{}..{}]subscribe", s.call, s.ret))); } }
        evs.sort_by_key(|e| e.0);
        let mut out = evs.into_iter().map(|e| e.1).collect::<Vec<_>>().join(" ");
        for s in &self.streams {
            out.push_str(&format!(" | L{}.{:?}(s{}){}: [{}]", s.listener, s.role, s.id, if s.ended { " ended" } else { "" },
                                  s.yields.iter().map(|y| format!("{}{}", payload::show(y.val), if y.drain { "*" } else { "" })).collect::<Vec<_>>().join(" ")));
        }
        out.push_str(&format!(" | log order (auditor): [{}]", self.audit.iter().map(|(v, _)| payload::show(*v)).collect::<Vec<_>>().join(" ")));
        out
    }
}

/// the C09 oracle
pub fn judge(run: &LogRun) -> Option<(String, String)> {
    let k = "multi.mmap_log";
    let fail = |sig: String, what: String| Some((format!("{k}/{sig}"), format!("{what}; history: {}", run.render())));
    // --- the send contract (the log never rejects)
    if let Some(p) = run.pubs.iter().find(|p| !p.accepted) { return fail("send-rejected".into(), format!("send of {} was not accepted (or its setter did not run exactly once)", payload::show(p.val))); }
    // --- the auditor's replay defines the log order; it must be the accepted set, each once, at consecutive slots
    let accepted: BTreeMap<u64, &PubRec> = run.pubs.iter().map(|p| (p.val, p)).collect();
    let mut pos: HashMap<u64, usize> = HashMap::new();
    for (i, (v, a)) in run.audit.iter().enumerate() {
        if !accepted.contains_key(v) { return fail("replay/invented-event".into(), format!("a full replay after the run yields {} which nobody sent", payload::show(*v))); }
        if pos.insert(*v, i).is_some() { return fail("replay/duplicated".into(), format!("a full replay after the run yields {} twice", payload::show(*v))); }
        if i > 0 && *a != run.audit[i - 1].1 + std::mem::size_of::<Tracked>() { return fail("replay/not-consecutive-slots".into(), format!("a full replay after the run yields {} at address {a:#x}, not one slot after its predecessor", payload::show(*v))); }
    }
    if !run.audit_ended_ok { return fail("replay/ended".into(), "a joined subscription created after the run ended by itself".into()); }
    if let Some(p) = run.pubs.iter().find(|p| !pos.contains_key(&p.val)) { return fail("replay/lost".into(), format!("{} was accepted but a full replay after the run does not contain it", payload::show(p.val))); }
    let n = run.audit.len();
    // one order consistent with each producer's send order
    for a in &run.pubs { for b in &run.pubs {
        if a.thread == b.thread && a.ret < b.call && pos[&a.val] > pos[&b.val] {
            return fail("producer-order".into(), format!("{} was sent (and the send had returned) before {} by the same producer, but sits after it in the log", payload::show(a.val), payload::show(b.val)));
        }
    } }
    if let Some((was, now)) = run.changed_refs.first() { return fail("reference-changed".into(), format!("a reference yielded as {} reads {} at the end of the run", payload::show(*was), payload::show(*now))); }
    // --- every stream: intact known events at their log address, consecutive positions
    for s in &run.streams {
        let name = format!("{:?}", s.role).to_lowercase();
        let mut prev: Option<usize> = None;
        for y in &s.yields {
            if !y.intact || payload::decode(y.val).is_none() { return fail(format!("{name}/corrupt-payload"), format!("listener {} ({name}) yielded a corrupted payload {:#x}", s.listener, y.val)); }
            let Some(&p) = pos.get(&y.val) else { return fail(format!("{name}/invented-event"), format!("listener {} ({name}) yielded {} which nobody sent", s.listener, payload::show(y.val))); };
            if y.addr != run.audit[p].1 { return fail(format!("{name}/not-the-same-allocation"), format!("listener {} ({name}) got {} at {:#x}, the log holds it at {:#x}", s.listener, payload::show(y.val), y.addr, run.audit[p].1)); }
            if let Some(q) = prev {
                if p <= q { return fail(format!("{name}/repeated-or-reordered"), format!("listener {} ({name}) yielded {} (log position {p}) after position {q}", s.listener, payload::show(y.val))); }
                if p > q + 1 { return fail(format!("{name}/missed"), format!("listener {} ({name}) skipped log position(s) {}..{p}", s.listener, q + 1)); }
            }
            prev = Some(p);
        }
    }
    let first = |s: &StreamRec| s.yields.first().map(|y| pos[&y.val]);
    let last = |s: &StreamRec| s.yields.last().map(|y| pos[&y.val]);
    // real-time bounds of a subscription instant: events whose send had returned before the call are "old"; events whose send
    // was called after the return are "new"
    let bounds = |li: usize| -> (usize, usize) {
        let sub = &run.subs[li];
        let lo = run.pubs.iter().filter(|p| p.ret < sub.call).map(|p| pos[&p.val] + 1).max().unwrap_or(0);          // split point >= lo
        let hi = run.pubs.iter().filter(|p| p.call > sub.ret).map(|p| pos[&p.val]).min().unwrap_or(n);              // split point <= hi
        (lo, hi)
    };
    for s in &run.streams {
        let li = s.listener;
        match s.role {
            Role::Joined => {
                if n > 0 && first(s) != Some(0) { return fail("joined/missed".into(), format!("joined listener {li} did not start at the first event of the log (started at {:?})", first(s))); }
                if n > 0 && last(s) != Some(n - 1) { return fail("joined/missed".into(), format!("joined listener {li} never yielded the end of the log, not even in the final drain (stopped at {:?} of {n})", last(s))); }
                if s.ended { return fail("joined/ended".into(), format!("joined listener {li} answered end-of-stream although nobody cancelled it")); }
            },
            Role::NewOnly | Role::New => {
                let name = if s.role == Role::New { "new" } else { "newonly" };
                let (lo, hi) = bounds(li);
                let start = match s.role {
                    Role::New => run.streams.iter().find(|o| o.listener == li && o.role == Role::Old).map(|o| o.yields.len()).unwrap_or(0),
                    _ => first(s).unwrap_or(n),
                };
                if s.role == Role::New {
                    match first(s) {
                        Some(f) if f > start => return fail("split/missed-between-old-and-new".into(), format!("listener {li}: the old stream yielded positions [0,{start}), the new stream starts at {f}")),
                        Some(f) if f < start => return fail("split/in-both".into(), format!("listener {li}: the old stream yielded positions [0,{start}), the new stream starts at {f}")),
                        None if start < n => return fail("split/missed-between-old-and-new".into(), format!("listener {li}: the old stream yielded positions [0,{start}), the new stream yielded nothing of the {n} events, not even in the final drain")),
                        _ => {},
                    }
                }
                if let Some(l) = last(s) { if l != n - 1 { return fail(format!("{name}/missed"), format!("listener {li} ({name}) never yielded the end of the log, not even in the final drain (stopped at {l} of {n})")); } }
                if start < lo { return fail(format!("{name}/starts-before-subscription"), format!("listener {li} ({name}) starts at log position {start}, but the events up to position {lo} had been accepted before the subscription was requested")); }
                if start > hi { return fail(format!("{name}/starts-after-subscription"), format!("listener {li} ({name}) starts at log position {start}, but position {hi} was sent after the subscription call had returned")); }
                if s.ended { return fail(format!("{name}/ended"), format!("listener {li} ({name}) answered end-of-stream although nobody cancelled it")); }
            },
            Role::Old => {
                if !s.yields.is_empty() && first(s) != Some(0) { return fail("old/missed".into(), format!("listener {li}: the old stream did not start at the first event of the log")); }
                if !s.ended { return fail("old/did-not-end".into(), format!("listener {li}: the old stream had not answered end-of-stream when nothing could run any more ({} Pending answers)", s.pendings)); }
                let k = s.yields.len();
                let (lo, hi) = bounds(li);
                if k < lo { return fail("old/missed".into(), format!("listener {li}: the old stream ended after {k} events, but {lo} events had been accepted before the subscription was requested")); }
                if k > hi { return fail("old/yields-new-events".into(), format!("listener {li}: the old stream yielded {k} events, but position {hi} was sent after the subscription call had returned")); }
            },
        }
    }
    None
}

fn sanitize(mut c: LogCase) -> LogCase {
    if ![1u8, 2, 4].contains(&c.max_streams) { c.max_streams = 4; }
    let mut budget = c.max_streams as usize;
    let mut kept = vec![];
    for l in c.listeners.drain(..) {
        let need = if l.sub == Sub::Split { 2 } else { 1 };
        if need <= budget { budget -= need; kept.push(l); }
    }
    if kept.is_empty() { kept.push(Listener { sub: if c.max_streams >= 2 { Sub::Split } else { Sub::Joined }, upfront: false, pause: 0, hold: 0, alternate: false }); }
    c.listeners = kept;
    c
}

pub struct C09Log;
impl Property for C09Log {
    type Case = LogCase;
    fn part(&self) -> &'static str { "mmap-log-sched" }
    fn strategy(&self, _tier: Tier) -> BoxedStrategy<LogCase> {
        let op = prop_oneof![3 => Just(LOp::Send), 3 => Just(LOp::SendWith), 2 => (0u8..4).prop_map(LOp::Pause)];
        let publishers = vec(vec(op, 1..=5), 1..=3);
        let listener = (prop_oneof![2 => Just(Sub::New), 4 => Just(Sub::Split), 3 => Just(Sub::Joined)], prop_oneof![4 => Just(false), 1 => Just(true)], 0u8..14, 0u8..3, any::<bool>())
            .prop_map(|(sub, upfront, pause, hold, alternate)| Listener { sub, upfront, pause, hold, alternate });
        (prop_oneof![2 => Just(2u8), 3 => Just(4u8)], 0u8..5, publishers, vec(listener, 1..=3), prop_oneof![5 => Just(0u8), 1 => 1u8..=4])
            .prop_flat_map(|(max_streams, prefill, publishers, listeners, sibling)| {
                let n = publishers.len() + listeners.len();
                let est: u32 = publishers.iter().map(|p| p.len() as u32 * 10).sum::<u32>() + listeners.len() as u32 * 40 + 10;
                (Just(max_streams), Just(prefill), Just(publishers), Just(listeners), sparse_or_any_schedule(n, est), Just(sibling))
            })
            .prop_map(|(max_streams, prefill, publishers, listeners, schedule, sibling)| {
                let c = sanitize(LogCase { max_streams, prefill, publishers, listeners, schedule, sibling });
                // (the schedule may name thread numbers that no longer exist after sanitising: the scheduler ignores those)
                c
            })
            .boxed()
    }
    fn cases(&self, tier: Tier) -> u32 { match tier { Tier::Quick => 20_000, Tier::Thorough => 200_000 } }
    fn run(&self, case: &LogCase) -> RunReport {
        let case = &sanitize(case.clone());
        let run = execute(case);
        let mut classes = vec![format!("max_streams:{}", case.max_streams), format!("publishers:{}", case.publishers.len()), format!("listeners:{}", case.listeners.len())];
        for l in &case.listeners { classes.push(format!("sub:{:?}{}", l.sub, if l.upfront { "(upfront)" } else { "" })); }
        if case.sibling > 0 { classes.push("sibling-channel-with-a-similar-name".into()); }
        let overlap = case.listeners.iter().enumerate().any(|(li, l)| !l.upfront && run.subs.get(li).map(|s| s.done && run.pubs.iter().any(|p| p.call < s.ret && s.call < p.ret)).unwrap_or(false));
        if overlap { classes.push("subscription-overlapped-a-publish".into()); }
        let n = run.audit.len();
        for s in &run.streams { if s.role == Role::Old && !s.yields.is_empty() && s.yields.len() < n { classes.push("split-point-strictly-inside".into()); } }
        if run.streams.iter().any(|s| s.pendings > 0) { classes.push("parked".into()); }
        classes.sort(); classes.dedup();
        let fingerprint = {
            use std::hash::{Hash, Hasher};
            let mut h = std::collections::hash_map::DefaultHasher::new();
            format!("{}{}{:?}{:?}", case.max_streams, case.prefill, case.publishers, case.listeners).hash(&mut h);
            run.trace.hash(&mut h);
            h.finish()
        };
        let summary = run.render();
        let verdict = match &run.end {
            EndState::Completed => match judge(&run) { None => Verdict::Pass, Some((signature, detail)) => Verdict::Violation { signature, detail } },
            EndState::Budget => Verdict::Inconclusive("step-budget".into()),
            EndState::Blocked { .. } => Verdict::Inconclusive("blocked-in-uninstrumented-wait".into()),
            EndState::Stall { stuck, parked } => Verdict::Violation { signature: "multi.mmap_log/stall".into(),
                detail: format!("no thread can make progress: threads {stuck:?} spin on an operation nobody will ever let succeed (parked: {parked:?}; current operations {:?}); history: {summary}", run.cur_ops) },
            EndState::Panicked { tid, msg } => Verdict::Violation { signature: "multi.mmap_log/panic".into(), detail: format!("thread {tid} panicked: {msg} (current operations {:?}); history: {summary}", run.cur_ops) },
        };
        let nontrivial = overlap || matches!(verdict, Verdict::Violation { .. });
        RunReport { verdict, nontrivial, classes, fingerprint, trace: Some(run.trace.clone()), summary }
    }
    fn rule(&self) -> String {
        "generated: MmapLog with MAX_STREAMS {2,4} x 0..4 events published beforehand x 1..3 publisher scripts of 1..5 steps (send | send_with | pause) x 1..3 listeners, each subscribing {new only | old+new split pair | old+new joined} either up front or from its own thread after 0..13 scheduling points, consuming at its own speed (hold 0..2, split pairs polled alternately or old-first) x {no other channel | a second live log channel whose name differs only in punctuation, with 0..3 events of its own} x schedule (sparse preemptions | PCT | random walk); \
         oracle: after the run an auditor (a joined subscription on the then listener-less channel) replays the log: it must yield exactly the accepted events, once each, at consecutive slots, in an order consistent with every producer's send order -- that order is the reference. Every stream must yield consecutive log positions at the log's own addresses; joined = [0,N); old = [0,k) then end-of-stream by itself; new of the same pair = [k,N) (nothing missing, nothing in both); new-only = a gapless suffix; every split / start point lies between 'events whose send had returned before the subscription was requested' and 'events sent after the subscription call returned'; every reference handed out still reads the same intact value at the end; \
         non-trivial: a subscription call issued during the run overlapped a publish".into()
    }
    fn schedule_mut<'a>(&self, case: &'a mut LogCase) -> Option<&'a mut Schedule> { Some(&mut case.schedule) }
}
