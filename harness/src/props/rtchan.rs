//! E3, channel-level workloads: generated workloads through `Uni` (this piece), `Multi` and the bare channel API on real
//! tokio runtimes -- C06 (graceful close), C12 (life cycle of a Uni's / Multi's executors), C11 through Uni / Multi, C07 (ending one stream).

use crate::chan::ChanKind;
use crate::driver::{pick, Property, RunReport, Tier, Verdict};
use crate::props::rt::*;
use futures::stream::{BoxStream, StreamExt};
use proptest::collection::vec;
use proptest::prelude::*;
use reactive_mutiny::prelude::advanced::*;
use reactive_mutiny::stream_executor::StreamExecutorStats;
use serde::{Deserialize, Serialize};
use std::collections::BTreeSet;
use std::fmt::Debug;
use std::future::Future;
use std::pin::Pin;
use std::sync::atomic::{AtomicBool, AtomicUsize, Ordering::SeqCst};
use std::sync::Arc;
use std::time::Duration;

/// what a pipeline receives, whatever the wrapper
pub trait Ev: Send + Sync + Debug + 'static { fn v(&self) -> u64; }
impl Ev for u64 { fn v(&self) -> u64 { *self } }
impl Ev for Arc<u64> { fn v(&self) -> u64 { **self } }
impl Ev for &'static u64 { fn v(&self) -> u64 { **self } }
impl<A: BoundedOgreAllocator<u64> + Send + Sync + 'static> Ev for OgreArc<u64, A> { fn v(&self) -> u64 { **self } }
impl<A: BoundedOgreAllocator<u64> + Send + Sync + 'static> Ev for OgreUnique<u64, A> { fn v(&self) -> u64 { **self } }

pub const METRICS: usize = 7;      // Instruments::MetricsWithoutLogs

#[derive(Clone, Debug)]
pub struct Snapshot {
    pub finished: Vec<Vec<u64>>,
    pub started:  Vec<Vec<u64>>,
    pub running:  u32,
    pub open:     bool,
    pub pending:  u32,
    pub returned: bool,
}

pub struct ChanOutcome {
    pub world:     Arc<World>,
    pub behs:      Vec<Beh>,
    pub n_exec:    usize,
    pub accepted:  Vec<u64>,
    pub at_close:  Snapshot,
    /// Uni: `finished_executors_count` after the user callback; Multi: number of executors
    pub finished_executors: u32,
    pub statuses:  Vec<String>,
    pub counters:  Vec<(u32, u32, u32)>,
    pub gave_up_sending: bool,
}

fn status_name(s: &dyn StreamExecutorStats) -> String {
    use reactive_mutiny::stream_executor::ExecutorStatus as S;
    match s.executor_status().load(SeqCst) { S::NotStarted => "NotStarted", S::Running => "Running", S::ScheduledToFinish => "ScheduledToFinish", S::ProgrammaticallyEnded => "ProgrammaticallyEnded", S::StreamEnded => "StreamEnded" }.to_string()
}

pub fn snapshot(world: &World, n_exec: usize, running: u32, open: bool, pending: u32, returned: bool) -> Snapshot {
    Snapshot { finished: (0..n_exec).map(|e| world.finished_of(e)).collect(), started: (0..n_exec).map(|e| world.started_of(e)).collect(), running, open, pending, returned }
}

// ---------------------------------------------------------------------------------------------------------------------
// Uni

#[derive(Clone, Debug, Serialize, Deserialize)]
pub struct UniCase {
    pub kind:    ChanKind,
    pub buffer:  u8,
    pub max_streams: u8,
    pub exec:    ExecKind,
    pub limit:   u8,
    pub rt:      Rt,
    pub items:   Vec<Beh>,
    /// the gate opens only after close() was called (by another task), not before
    pub gate_after_close: bool,
    pub release_after: u8,
    pub senders: u8,
    /// the streams are told to end (`channel.cancel_all_streams()`, then a few yields) right before `close(Duration::ZERO)` is called: they may have
    /// ended -- and been dropped by their executors -- by then, with item futures still in flight; close must wait for those all the same
    #[serde(default)]
    pub pre_cancel: bool,
}

pub static UNI_CFGS: [(u8, u8); 4] = [(4, 1), (4, 2), (8, 4), (64, 8)];
pub static UNI_EXECS: [ExecKind; 4] = [ExecKind::FutFall, ExecKind::Fut, ExecKind::Fall, ExecKind::Plain];

pub fn uni_behs(case: &UniCase) -> Vec<Beh> {
    let n = case.items.len();
    let b = case.buffer as usize;
    case.items.iter().enumerate().map(|(i, beh)| {
        let mut x = case.exec.adapt(*beh, false, case.rt.paused());
        // an item waiting for a gate that only opens after close() blocks its stream: everything behind it must fit into the buffer, or the sends never finish
        if x == Beh::OkGated && case.gate_after_close && i + b < n { x = Beh::OkYields(1); }
        x
    }).collect()
}

async fn send_all<S: Fn(u64) -> bool + Send + Sync + 'static>(send: Arc<S>, n: u64, senders: u8) -> bool {
    let senders = senders.max(1) as u64;
    let mut handles = vec![];
    for s in 0..senders {
        let send = Arc::clone(&send);
        handles.push(tokio::spawn(async move {
            let mut v = s + 1;
            while v <= n {
                let mut tries = 0u32;
                while !send(v) {
                    tries += 1;
                    if tries > 200_000 { return false; }
                    tokio::task::yield_now().await;
                }
                v += senders;
            }
            true
        }));
    }
    let mut ok = true;
    for h in handles { ok &= h.await.unwrap_or(false); }
    ok
}

fn spawn_releaser(world: &Arc<World>, after_close: bool, close_called: &Arc<tokio::sync::Notify>, flag: &Arc<AtomicBool>, yields: u8) {
    let w = Arc::clone(world);
    let n = Arc::clone(close_called);
    let f = Arc::clone(flag);
    tokio::spawn(async move {
        if after_close {
            loop {
                let notified = n.notified();
                if f.load(SeqCst) { break; }
                notified.await;
            }
            // (close() works in 1 ms timer steps: the gate opens a generated number of milliseconds into it)
            tokio::time::sleep(Duration::from_millis(yields as u64)).await;
        }
        for _ in 0..yields { tokio::task::yield_now().await; }
        w.open_gate();
    });
}

async fn uni_main<C, D>(case: UniCase) -> ChanOutcome
where C: FullDuplexUniChannel<ItemType = u64, DerivedItemType = D> + Send + Sync + 'static,
      D: Ev {
    let behs = uni_behs(&case);
    let m = <C as FullDuplexUniChannel>::MAX_STREAMS;
    let world = World::new(behs.clone(), m);
    let n = behs.len() as u64;
    let limit = case.limit as u32;
    let next_e = Arc::new(AtomicUsize::new(0));
    let (w1, w_err, w_cb) = (Arc::clone(&world), Arc::clone(&world), Arc::clone(&world));
    let on_close = move |stats: Arc<dyn StreamExecutorStats + Send + Sync>| { let w = Arc::clone(&w_cb); async move { w.on_callback(0, &stats); } };
    let uni = Uni::<u64, C, METRICS, D>::new("rmv");
    let uni: Arc<Uni<u64, C, METRICS, D>> = match case.exec {
        ExecKind::FutFall => uni.spawn_executors(limit, Duration::ZERO,
            move |stream| { let e = next_e.fetch_add(1, SeqCst); let w = Arc::clone(&w1);
                            stream.map(move |d: D| { let w = Arc::clone(&w); Box::pin(async move { let r = item_future(w, e, d.v()).await; drop(d); r }) as FutItem }).boxed() as BoxStream<'static, FutItem> },
            move |err: BoxErr| { let w = Arc::clone(&w_err); async move { w.on_err(&err.to_string()); } }, on_close),
        ExecKind::Fut => uni.spawn_futures_executors(limit, Duration::ZERO,
            move |stream| { let e = next_e.fetch_add(1, SeqCst); let w = Arc::clone(&w1);
                            stream.map(move |d: D| { let w = Arc::clone(&w); Box::pin(async move { let r = item_future(w, e, d.v()).await.unwrap_or(0); drop(d); r }) as PlainFutItem }).boxed() as BoxStream<'static, PlainFutItem> },
            on_close),
        ExecKind::Fall | ExecKind::NonFut => uni.spawn_fallibles_executors(limit,
            move |stream| { let e = next_e.fetch_add(1, SeqCst); let w = Arc::clone(&w1);
                            stream.map(move |d: D| item_sync(&w, e, d.v())).boxed() as BoxStream<'static, Result<u64, BoxErr>> },
            move |err: BoxErr| w_err.on_err(&err.to_string()), on_close),
        ExecKind::Plain => uni.spawn_non_futures_non_fallibles_executors(limit,
            move |stream| { let e = next_e.fetch_add(1, SeqCst); let w = Arc::clone(&w1);
                            stream.map(move |d: D| item_sync(&w, e, d.v()).unwrap_or(0)).boxed() as BoxStream<'static, u64> },
            on_close),
    };
    let close_called = Arc::new(tokio::sync::Notify::new());
    let close_flag = Arc::new(AtomicBool::new(false));
    spawn_releaser(&world, case.gate_after_close, &close_called, &close_flag, case.release_after);
    let u2 = Arc::clone(&uni);
    // (items waiting for a gate that opens only after close(): in-order sending, or the 'fits behind it' construction does not hold)
    let senders = if case.gate_after_close && behs.contains(&Beh::OkGated) { 1 } else { case.senders };
    let sent = send_all(Arc::new(move |v: u64| u2.send(v).is_ok()), n, senders).await;
    let accepted: Vec<u64> = if sent { (1..=n).collect() } else { vec![] };
    close_flag.store(true, SeqCst);
    close_called.notify_waiters();
    let dbg = std::env::var("RMV_STAGES").is_ok();
    if dbg { eprintln!("stage: calling close; running={} pending={}", uni.channel.running_streams_count(), uni.channel.pending_items_count());
        let u3 = Arc::clone(&uni); let w3 = Arc::clone(&world);
        std::thread::spawn(move || { std::thread::sleep(Duration::from_secs(5)); eprintln!("monitor: running={} pending={} open={} statuses={:?} finished_executors={} started={:?} finished={:?}", u3.channel.running_streams_count(), u3.channel.pending_items_count(), u3.channel.is_channel_open(), u3.stream_executors.iter().map(|x| status_name(&**x)).collect::<Vec<_>>(), u3.finished_executors_count.load(SeqCst), w3.started.lock().unwrap(), w3.finished.lock().unwrap()); }); }
    if case.pre_cancel { uni.channel.cancel_all_streams(); for _ in 0..(2 + case.release_after % 4) { tokio::task::yield_now().await; } }
    let returned = uni.close(Duration::ZERO).await;
    if dbg { eprintln!("stage: close returned"); }
    let at_close = snapshot(&world, m, uni.channel.running_streams_count(), uni.channel.is_channel_open(), uni.channel.pending_items_count(), returned);
    world.open_gate();
    world.wait_callbacks(1).await;
    for _ in 0..6 { tokio::task::yield_now().await; }
    let statuses = uni.stream_executors.iter().take(m).map(|x| status_name(&**x)).collect();
    let counters = uni.stream_executors.iter().take(m).map(|x| (x.ok_events_avg_future_duration.probe().0, x.timed_out_events_avg_future_duration.probe().0, x.failed_events_avg_future_duration.probe().0)).collect();
    ChanOutcome { world, behs, n_exec: m, accepted, at_close, finished_executors: uni.finished_executors_count.load(SeqCst), statuses, counters, gave_up_sending: !sent }
}

type BoxOutcome = Pin<Box<dyn Future<Output = ChanOutcome>>>;

macro_rules! by_uni_cfg {
    ($b:expr, $m:expr, $B:ident, $M:ident => $e:expr) => {
        match ($b, $m) {
            (4, 1) => { const $B: usize = 4; const $M: usize = 1; $e },
            (4, 2) => { const $B: usize = 4; const $M: usize = 2; $e },
            (8, 4) => { const $B: usize = 8; const $M: usize = 4; $e },
            (64, 8) => { const $B: usize = 64; const $M: usize = 8; $e },
            other => panic!("unsupported Uni configuration {:?}", other),
        }
    }
}

fn uni_dispatch(case: UniCase) -> BoxOutcome {
    macro_rules! go { ($t:ident) => { by_uni_cfg!(case.buffer, case.max_streams, B, M => Box::pin(uni_main::<$t<u64, B, M>, _>(case)) as BoxOutcome) } }
    match case.kind {
        ChanKind::UniMoveAtomic    => go!(ChannelUniMoveAtomic),
        ChanKind::UniMoveFullSync  => go!(ChannelUniMoveFullSync),
        ChanKind::UniMoveCrossbeam => go!(ChannelUniMoveCrossbeam),
        ChanKind::UniZcAtomic      => go!(ChannelUniZeroCopyAtomic),
        ChanKind::UniZcFullSync    => go!(ChannelUniZeroCopyFullSync),
        other => panic!("not a Uni kind: {other:?}"),
    }
}

/// which of the registered properties a violation found by the shared oracle belongs to
#[derive(Clone, Copy, PartialEq, Eq, Debug)]
pub enum Clause { C06, C11, C12, C07 }

/// the oracle shared by the Uni and Multi workloads; `entitled[e]`: what executor e must have processed (None: Uni -- the union counts)
pub fn judge_chan(prefix: &str, exec: ExecKind, limit: u8, o: &ChanOutcome, expected_callbacks: usize) -> Vec<(Clause, String, String)> {
    let mut out = vec![];
    let w = &o.world;
    let lim = if limit == 1 { "limit=1" } else { "limit>1" };
    let k = format!("{prefix}/{}", exec.name());
    let all: BTreeSet<u64> = o.accepted.iter().copied().collect();
    // --- C06: at the instant close() returned
    let done_at_close: BTreeSet<u64> = o.at_close.finished.iter().flatten().copied().collect();
    let started_at_close: BTreeSet<u64> = o.at_close.started.iter().flatten().copied().collect();
    let unprocessed: Vec<u64> = all.iter().copied().filter(|v| !done_at_close.contains(v)).collect();
    if !unprocessed.is_empty() {
        let in_flight_only = unprocessed.iter().all(|v| started_at_close.contains(v));
        let sig = if in_flight_only && exec.futures() && limit > 1 { format!("{prefix}/futures-executor/limit>1/item-futures-still-in-flight-when-close-returned") }
                  else { format!("{k}/{lim}/unprocessed-when-close-returned/{}", if in_flight_only { "in-flight" } else { "not-even-started" }) };
        out.push((Clause::C06, sig, format!("close() returned while accepted events {unprocessed:?} had not been fully processed (started by then: {:?})", unprocessed.iter().filter(|v| started_at_close.contains(v)).collect::<Vec<_>>())));
    }
    if !o.at_close.returned { out.push((Clause::C06, format!("{k}/close-reported-failure"), "close(Duration::ZERO) answered false".into())); }
    if o.at_close.running != 0 { out.push((Clause::C06, format!("{k}/streams-running-after-close"), format!("running_streams_count() == {} right after close() returned", o.at_close.running))); }
    if o.at_close.open { out.push((Clause::C06, format!("{k}/open-after-close"), "is_channel_open() right after close() returned".into())); }
    // --- after the close callbacks: nothing discarded, nothing twice
    let finished_all: Vec<u64> = (0..o.n_exec).flat_map(|e| w.finished_of(e)).collect();
    let want: Vec<u64> = o.accepted.clone();
    if multiset(&finished_all) != multiset(&want) {
        let lost: Vec<u64> = want.iter().copied().filter(|v| !finished_all.contains(v)).collect();
        if !lost.is_empty() { out.push((Clause::C06, format!("{k}/{lim}/accepted-events-discarded"), format!("accepted events {lost:?} were never processed, not even after every close callback had run (dropped mid-processing: {:?})", w.dropped_incomplete.lock().unwrap()))); }
        else { out.push((Clause::C06, format!("{k}/processed-twice"), format!("processed {finished_all:?}"))); }
    }
    // --- C11 through the Uni / Multi
    for e in 0..o.n_exec {
        let max = w.max_in_flight[e].load(SeqCst);
        if exec.futures() && max > limit as i64 { out.push((Clause::C11, format!("{k}/limit-exceeded"), format!("executor {e} had {max} item futures in progress at once; the concurrency limit is {limit}"))); break; }
    }
    let errs: Vec<u64> = finished_all.iter().copied().filter(|v| o.behs[*v as usize - 1].is_err()).collect();
    let cb_errs: Vec<u64> = w.errs.lock().unwrap().iter().map(|x| x.0).collect();
    if exec.has_err_callback() && multiset(&cb_errs) != multiset(&errs) { out.push((Clause::C11, format!("{k}/error-callback-mismatch"), format!("failed items {errs:?}; error callback invoked for {cb_errs:?}"))); }
    let (ok, to, failed) = o.counters.iter().fold((0, 0, 0), |a, c| (a.0 + c.0, a.1 + c.1, a.2 + c.2));
    let want_c = ((finished_all.len() - errs.len()) as u32, 0u32, errs.len() as u32);
    if (ok, to, failed) != want_c { out.push((Clause::C11, format!("{k}/counters-mismatch"), format!("processed ok/timed-out/failed = {want_c:?}; the executors' counters add up to ({ok}, {to}, {failed})"))); }
    // --- C12
    let cbs = w.callbacks.lock().unwrap().clone();
    if cbs.len() != expected_callbacks { out.push((Clause::C12, format!("{k}/close-callback-count"), format!("{} close callbacks ran, {expected_callbacks} expected", cbs.len()))); }
    let last_item = (0..o.n_exec).flat_map(|e| w.finished.lock().unwrap()[e].iter().map(|x| x.1).collect::<Vec<_>>()).chain(w.errs.lock().unwrap().iter().map(|x| x.1)).max().unwrap_or(0);
    if prefix.starts_with("uni") {
        if let Some(cb) = cbs.first() {
            if cb.stamp < last_item { out.push((Clause::C12, format!("{k}/close-callback-before-last-item"), format!("the Uni's close callback ran at logical time {} but an item of one of its executors completed at {last_item}", cb.stamp))); }
        }
        if o.finished_executors != o.n_exec as u32 { out.push((Clause::C12, format!("{k}/finished-executors-count"), format!("finished_executors_count == {} after the close callback, MAX_STREAMS == {}", o.finished_executors, o.n_exec))); }
        if let Some(bad) = o.statuses.iter().find(|s| s.as_str() != "StreamEnded") { out.push((Clause::C12, format!("{k}/executor-status-after-close-callback"), format!("after the Uni's close callback an executor is in state {bad} (all: {:?})", o.statuses))); }
    }
    out
}

pub fn uni_case_strategy() -> BoxedStrategy<UniCase> {
    let beh = prop_oneof![4 => Just(Beh::Ok), 3 => (1u8..4).prop_map(Beh::OkYields), 2 => Just(Beh::OkGated), 2 => Just(Beh::Err), 1 => (1u8..4).prop_map(Beh::ErrYields)];
    (any::<u16>(), any::<u16>(), any::<u16>(), 1u8..=4, rt_strategy(), vec(beh, 0..24), any::<bool>(), 0u8..10, 1u8..=2, prop_oneof![3 => Just(false), 1 => Just(true)])
        .prop_map(|(k, c, e, limit, rt, mut items, gate_after_close, release_after, senders, pre_cancel)| {
            let kind = pick(&crate::chan::UNI_KINDS, k);
            let (buffer, max_streams) = pick(&UNI_CFGS, c);
            items.truncate(3 * buffer as usize);
            UniCase { kind, buffer, max_streams, exec: pick(&UNI_EXECS, e), limit, rt, items, gate_after_close, release_after, senders, pre_cancel }
        }).boxed()
}

pub fn uni_report(case: &UniCase, clause: Clause, known_is: &dyn Fn(&str) -> bool) -> RunReport {
    let c2 = case.clone();
    let end = run_case(case.rt, move || uni_dispatch(c2));
    let behs = uni_behs(case);
    let mut classes = vec![format!("kind:{}", case.kind.short()), format!("cfg:B{}xM{}", case.buffer, case.max_streams), format!("fn:{}", case.exec.name()), format!("limit:{}", case.limit),
                           format!("runtime:{}", case.rt.name()), format!("senders:{}", case.senders)];
    if case.gate_after_close && behs.contains(&Beh::OkGated) { classes.push("gate-opens-after-close-was-called".into()); }
    if case.pre_cancel { classes.push("streams-told-to-end-right-before-close".into()); }
    let fingerprint = { use std::hash::{Hash, Hasher}; let mut h = std::collections::hash_map::DefaultHasher::new(); format!("{clause:?}{case:?}").hash(&mut h); h.finish() };
    let prefix = "uni";
    let mut nontrivial = false;
    let (verdict, summary) = match end {
        CaseEnd::Done(o) if o.gave_up_sending => { if std::env::var("RMV_SHOW_HANGS").is_ok() { eprintln!("GAVEUP {} started={:?}", serde_json::to_string(case).unwrap(), o.world.started.lock().unwrap()); } (Verdict::Inconclusive("sends-never-accepted".into()), "gave up sending".into()) },
        CaseEnd::Done(o) => {
            let buffered = o.accepted.len() - o.at_close.started.iter().map(|s| s.len()).sum::<usize>().min(o.accepted.len());
            let in_flight = o.at_close.started.iter().map(|s| s.len()).sum::<usize>() - o.at_close.finished.iter().map(|s| s.len()).sum::<usize>().min(o.at_close.started.iter().map(|s| s.len()).sum::<usize>());
            let busy = case.gate_after_close && behs.contains(&Beh::OkGated);
            if busy { classes.push("work-outstanding-when-close-was-called".into()); }
            let _ = (buffered, in_flight);
            let summary = format!("{} items {:?}; processed when close() returned: {:?}; finally: {:?}; callbacks {:?}; statuses {:?}", behs.len(), behs.iter().map(|b| b.short()).collect::<Vec<_>>(),
                                  o.at_close.finished, (0..o.n_exec).map(|e| o.world.finished_of(e)).collect::<Vec<_>>(), o.world.callbacks.lock().unwrap().iter().map(|c| (c.stamp, c.status.clone())).collect::<Vec<_>>(), o.statuses);
            let found = judge_chan(prefix, case.exec, case.limit, &o, 1);
            nontrivial = match clause { Clause::C06 => busy || !behs.is_empty() && case.rt != Rt::CurrentPaused, Clause::C12 => case.max_streams >= 2, _ => behs.iter().any(|b| b.is_err()) };
            // a violation that belongs to this registration and is not a listed finding comes first; listed ones are reported (and counted) otherwise
            let mine: Vec<&(Clause, String, String)> = found.iter().filter(|f| f.0 == clause).collect();
            let pickd = mine.iter().find(|f| !known_is(&f.1)).or(mine.first());
            (match pickd { None => Verdict::Pass, Some((_, signature, detail)) => Verdict::Violation { signature: signature.clone(), detail: format!("{detail}; {summary}") } }, summary)
        },
        CaseEnd::Hang { decided } => { if std::env::var("RMV_SHOW_HANGS").is_ok() { eprintln!("HANG {}", serde_json::to_string(case).unwrap()); } (Verdict::Inconclusive(if decided { "no-progress(paused-clock)".into() } else { "watchdog".into() }), "did not finish".into()) },
        CaseEnd::Panicked(p) => (Verdict::Violation { signature: format!("{prefix}/{}/panic", case.exec.name()), detail: format!("a task panicked: {p:?}") }, format!("panic {p:?}")),
    };
    if matches!(verdict, Verdict::Violation { .. }) { nontrivial = true; }
    RunReport { verdict, nontrivial, classes, fingerprint, trace: None, summary }
}

fn known_for(property: &str) -> impl Fn(&str) -> bool {
    let known = crate::driver::load_known(&std::path::PathBuf::from(std::env::var("VERIF_DIR").unwrap_or_else(|_| "/verif".into())).join("KNOWN_FINDINGS.txt"));
    let property = property.to_string();
    move |sig: &str| known.iter().any(|k| k.property == property && k.signature == sig)
}

pub struct C06Uni;
impl Property for C06Uni {
    type Case = UniCase;
    fn attempts(&self, case: &UniCase) -> u32 { if case.rt.paused() { 1 } else { 25 } }
    fn part(&self) -> &'static str { "uni-close" }
    fn strategy(&self, _tier: Tier) -> BoxedStrategy<UniCase> { uni_case_strategy() }
    fn cases(&self, tier: Tier) -> u32 { match tier { Tier::Quick => 8_000, Tier::Thorough => 80_000 } }
    fn run(&self, case: &UniCase) -> RunReport { uni_report(case, Clause::C06, &known_for("C06")) }
    fn rule(&self) -> String {
        "generated: Uni over the 5 channel kinds x (BUFFER_SIZE, MAX_STREAMS) in {(4,1),(4,2),(8,4)} x {spawn_executors | spawn_futures_executors | spawn_fallibles_executors | spawn_non_futures_non_fallibles_executors} x concurrency limit 1..4 x runtime {current_thread paused clock, multi_thread(2), multi_thread(4)} x 0..3*BUFFER_SIZE events over {ok, ok after k yields, ok once a gate opens, error, error after k yields} sent by 1..2 tasks with retry-on-full x the gate opening before close() or only after close() was called (by another task, after 0..9 yields) x optionally channel.cancel_all_streams() + 2..5 yields right before close() (the streams may already have ended, their item futures not); timeout Duration::ZERO; \
         oracle: at the instant close() returns every accepted event has been fully processed (the pipeline records the END of each item's processing), close answered true, running_streams_count()==0, !is_channel_open(); after the Uni's close callback: processed == accepted as multisets (nothing discarded, nothing twice); \
         non-trivial: work was outstanding when close() was called (an item waits for a gate that opens only afterwards) or the runtime is multi-threaded".into()
    }
}

pub struct C12Uni;
impl Property for C12Uni {
    type Case = UniCase;
    fn attempts(&self, case: &UniCase) -> u32 { if case.rt.paused() { 1 } else { 25 } }
    fn part(&self) -> &'static str { "uni-lifecycle" }
    fn strategy(&self, _tier: Tier) -> BoxedStrategy<UniCase> { uni_case_strategy() }
    fn cases(&self, tier: Tier) -> u32 { match tier { Tier::Quick => 6_000, Tier::Thorough => 60_000 } }
    fn run(&self, case: &UniCase) -> RunReport { uni_report(case, Clause::C12, &known_for("C12")) }
    fn rule(&self) -> String {
        "generated: as the uni-close part of C06 (MAX_STREAMS 1, 2, 4); \
         oracle: the Uni's close callback runs exactly once, at a logical time after the end of the last item processed by ANY of its MAX_STREAMS executors; afterwards finished_executors_count == MAX_STREAMS and every executor is in state StreamEnded; \
         non-trivial: MAX_STREAMS >= 2".into()
    }
}

pub struct C11Uni;
impl Property for C11Uni {
    type Case = UniCase;
    fn attempts(&self, case: &UniCase) -> u32 { if case.rt.paused() { 1 } else { 25 } }
    fn part(&self) -> &'static str { "uni-accounting" }
    fn strategy(&self, _tier: Tier) -> BoxedStrategy<UniCase> { uni_case_strategy() }
    fn cases(&self, tier: Tier) -> u32 { match tier { Tier::Quick => 6_000, Tier::Thorough => 60_000 } }
    fn run(&self, case: &UniCase) -> RunReport { uni_report(case, Clause::C11, &known_for("C11")) }
    fn rule(&self) -> String {
        "generated: as the uni-close part of C06 (metrics on, no futures timeout); \
         oracle: per executor never more item futures in progress than the concurrency limit passed to the Uni (also when limit < MAX_STREAMS); error callback exactly once per failed item; the executors' ok / timed-out / failed counters add up to (#ok, 0, #failed) over all MAX_STREAMS executors; \
         non-trivial: the sequence contains a failing item".into()
    }
}

// ---------------------------------------------------------------------------------------------------------------------
// Multi

type SyncBoxStream<T> = Pin<Box<dyn futures::Stream<Item = T> + Send + Sync>>;
static MMAP_SEQ: std::sync::atomic::AtomicU64 = std::sync::atomic::AtomicU64::new(0);

#[derive(Clone, Debug, Serialize, Deserialize)]
pub struct MultiCase {
    pub kind:      ChanKind,
    pub exec:      ExecKind,
    pub limit:     u8,
    pub rt:        Rt,
    pub listeners: u8,
    pub items:     Vec<Beh>,
    /// `flush_and_cancel_executor` of listener j once `after` items were sent
    pub cancel:    Option<(u8, u8)>,
    /// log channel only: listener 0 is an old/new executor pair (sequential transition or not) subscribed once `pre` items were sent
    pub oldies:    Option<(bool, u8)>,
    pub gate_after_close: bool,
    pub release_after: u8,
}

pub const MULTI_B: usize = 8;
pub const MULTI_M: usize = 4;

/// makes a generated case respect what the kinds can do (construction instead of rejection; also applied to replayed cases)
pub fn multi_sanitize(mut c: MultiCase) -> MultiCase {
    c.listeners = c.listeners.clamp(1, 3);
    if !c.kind.is_mmap() { c.oldies = None; }
    if c.kind.is_arc() { c.items.truncate(MULTI_B); }            // (the Arc kinds wait -- blocking the thread -- when a listener's queue is full)
    else if c.kind.is_ogre_arc() { c.items.truncate(2 * MULTI_B); }
    let n = c.items.len() as u8;
    if let Some((seq, pre)) = c.oldies { c.oldies = Some((seq, pre.min(n))); }
    let pre = c.oldies.map(|o| o.1).unwrap_or(0);
    c.cancel = match c.cancel {
        Some((j, after)) => {
            let lo: u8 = if c.oldies.is_some() { 1 } else { 0 };
            if c.listeners <= lo || c.listeners < 2 { None } else { Some((lo + (j % (c.listeners - lo)), after.clamp(pre, n))) }
        },
        None => None,
    };
    c
}

pub fn multi_behs(case: &MultiCase) -> Vec<Beh> {
    let n = case.items.len();
    let cancel_at = case.cancel.map(|c| c.1 as usize).unwrap_or(0);
    let pre = case.oldies.map(|o| o.1 as usize).unwrap_or(0);
    case.items.iter().enumerate().map(|(i, beh)| {
        let mut x = case.exec.adapt(*beh, false, case.rt.paused());
        if x == Beh::OkGated && case.gate_after_close {
            // an item waiting for a gate that opens only after close() was called blocks its listener: flush_and_cancel_executor() (which
            // flushes every listener) and the pooled kinds' retried sends must not have to wait for it
            // (old events may wait for it when nothing calls flush_and_cancel_executor(): close() then lands in the middle of the replay of the old events)
            if i < cancel_at || (i < pre && case.cancel.is_some()) || (case.kind.is_ogre_arc() && i + MULTI_B < n) { x = Beh::OkYields(1); }
        }
        x
    }).collect()
}

pub struct MultiOutcome {
    pub chan:      ChanOutcome,
    /// per executor: the item numbers it is entitled to
    pub entitled:  Vec<Vec<u64>>,
    pub at_cancel: Option<(usize, Vec<u64>, bool)>,
    pub names:     Vec<String>,
}

async fn multi_main<C, D>(case: MultiCase) -> MultiOutcome
where C: FullDuplexMultiChannel<ItemType = u64, DerivedItemType = D> + Send + Sync + 'static,
      D: Ev {
    let behs = multi_behs(&case);
    let n = behs.len() as u64;
    let l = case.listeners as usize;
    let n_exec = l + if case.oldies.is_some() { 1 } else { 0 };
    let world = World::new(behs.clone(), n_exec);
    let limit = case.limit as u32;
    let name = format!("rmv-rt-{}-{}", std::process::id(), MMAP_SEQ.fetch_add(1, SeqCst));
    let multi = Arc::new(Multi::<u64, C, METRICS, D>::new(name.clone()));
    let pre = case.oldies.map(|o| o.1 as u64).unwrap_or(0);
    let cancel_at = case.cancel.map(|c| c.1 as u64);

    let fut_stream = |w: Arc<World>, e: usize, s: MutinyStream<'static, u64, C, D>| -> SyncBoxStream<FutItem> {
        Box::pin(s.map(move |d: D| { let w = Arc::clone(&w); Box::pin(async move { let r = item_future(w, e, d.v()).await; drop(d); r }) as FutItem }))
    };
    let plain_fut_stream = |w: Arc<World>, e: usize, s: MutinyStream<'static, u64, C, D>| -> SyncBoxStream<PlainFutItem> {
        Box::pin(s.map(move |d: D| { let w = Arc::clone(&w); Box::pin(async move { let r = item_future(w, e, d.v()).await.unwrap_or(0); drop(d); r }) as PlainFutItem }))
    };
    let fall_stream = |w: Arc<World>, e: usize, s: MutinyStream<'static, u64, C, D>| -> SyncBoxStream<Result<u64, BoxErr>> { Box::pin(s.map(move |d: D| item_sync(&w, e, d.v()))) };
    let plain_stream = |w: Arc<World>, e: usize, s: MutinyStream<'static, u64, C, D>| -> SyncBoxStream<u64> { Box::pin(s.map(move |d: D| item_sync(&w, e, d.v()).unwrap_or(0))) };
    let close_cb = |w: &Arc<World>, e: usize| { let w = Arc::clone(w); move |stats: Arc<dyn StreamExecutorStats + Send + Sync>| async move { w.on_callback(e, &stats); } };
    let err_async = |w: &Arc<World>| { let w = Arc::clone(w); move |err: BoxErr| { let w = Arc::clone(&w); async move { w.on_err(&err.to_string()); } } };
    let err_sync = |w: &Arc<World>| { let w = Arc::clone(w); move |err: BoxErr| w.on_err(&err.to_string()) };

    // events published before the old/new pair subscribes
    let m2 = Arc::clone(&multi);
    let mut sent_ok = send_all(Arc::new(move |v: u64| m2.send(v).is_ok()), pre, 1).await;
    let mut names = vec![String::new(); n_exec];
    if let Some((sequential, _)) = case.oldies {
        let (w_old, w_new) = (Arc::clone(&world), Arc::clone(&world));
        let new_e = l;
        names[0] = "old".into(); names[new_e] = "new".into();
        let r = match case.exec {
            ExecKind::FutFall => multi.spawn_oldies_executor(limit, sequential, Duration::ZERO, "old".to_string(), move |s| fut_stream(w_old, 0, s), close_cb(&world, 0),
                                                             "new".to_string(), move |s| fut_stream(w_new, new_e, s), close_cb(&world, new_e), err_async(&world)).await,
            ExecKind::Fut => multi.spawn_futures_oldies_executor(limit, sequential, Duration::ZERO, "old".to_string(), move |s| plain_fut_stream(w_old, 0, s), close_cb(&world, 0),
                                                                 "new".to_string(), move |s| plain_fut_stream(w_new, new_e, s), close_cb(&world, new_e)).await,
            ExecKind::Fall | ExecKind::NonFut => multi.spawn_fallibles_oldies_executor(limit, sequential, "old".to_string(), move |s| fall_stream(w_old, 0, s), close_cb(&world, 0),
                                                                                       "new".to_string(), move |s| fall_stream(w_new, new_e, s), close_cb(&world, new_e), err_sync(&world)).await,
            ExecKind::Plain => multi.spawn_non_futures_non_fallible_oldies_executor(limit, sequential, "old".to_string(), move |s| plain_stream(w_old, 0, s), close_cb(&world, 0),
                                                                                    "new".to_string(), move |s| plain_stream(w_new, new_e, s), close_cb(&world, new_e)).await,
        };
        if let Err(e) = r { panic!("spawning the old/new executors failed: {e}"); }
    }
    for e in (if case.oldies.is_some() { 1 } else { 0 })..l {
        let w = Arc::clone(&world);
        names[e] = format!("L{e}");
        let r = match case.exec {
            ExecKind::FutFall => multi.spawn_executor(limit, Duration::ZERO, names[e].clone(), move |s| fut_stream(w, e, s), err_async(&world), close_cb(&world, e)).await,
            ExecKind::Fut => multi.spawn_futures_executor(limit, Duration::ZERO, names[e].clone(), move |s| plain_fut_stream(w, e, s), close_cb(&world, e)).await,
            ExecKind::Fall | ExecKind::NonFut => multi.spawn_fallibles_executor(limit, names[e].clone(), move |s| fall_stream(w, e, s), err_sync(&world), close_cb(&world, e)).await,
            ExecKind::Plain => multi.spawn_non_futures_non_fallible_executor(limit, names[e].clone(), move |s| plain_stream(w, e, s), close_cb(&world, e)).await,
        };
        if let Err(e) = r { panic!("spawning an executor failed: {e}"); }
    }
    let close_called = Arc::new(tokio::sync::Notify::new());
    let close_flag = Arc::new(AtomicBool::new(false));
    spawn_releaser(&world, case.gate_after_close, &close_called, &close_flag, case.release_after);
    // sends [pre, c), the cancellation of one executor, sends [c, n)
    let send_range = |from: u64, to: u64| { let m = Arc::clone(&multi); async move {
        let mut v = from + 1;
        while v <= to {
            let mut tries = 0u32;
            while !m.send(v).is_ok() { tries += 1; if tries > 200_000 { return false; } tokio::task::yield_now().await; }
            v += 1;
        }
        true
    } };
    let mut at_cancel = None;
    match (case.cancel, cancel_at) {
        (Some((j, _)), Some(c)) => {
            sent_ok &= send_range(pre, c).await;
            let ok = multi.flush_and_cancel_executor(names[j as usize].clone(), Duration::ZERO).await;
            at_cancel = Some((j as usize, world.finished_of(j as usize), ok));
            sent_ok &= send_range(c, n).await;
        },
        _ => { sent_ok &= send_range(pre, n).await; },
    }
    close_flag.store(true, SeqCst);
    close_called.notify_waiters();
    let returned = multi.close(Duration::ZERO).await;
    let at_close = snapshot(&world, n_exec, multi.channel.running_streams_count(), multi.channel.is_channel_open(), multi.channel.pending_items_count(), returned);
    world.open_gate();
    world.wait_callbacks(n_exec).await;
    for _ in 0..6 { tokio::task::yield_now().await; }
    // entitlement
    let all: Vec<u64> = (1..=n).collect();
    let mut entitled = vec![vec![]; n_exec];
    for e in 0..n_exec {
        entitled[e] = if case.oldies.is_some() && e == 0 { all.iter().copied().filter(|v| *v <= pre).collect() }
                      else if Some(e) == case.cancel.map(|c| c.0 as usize) { all.iter().copied().filter(|v| *v > pre && *v <= cancel_at.unwrap_or(n)).collect() }
                      else { all.iter().copied().filter(|v| *v > pre).collect() };
    }
    let cbs = world.callbacks.lock().unwrap().clone();
    let statuses = (0..n_exec).map(|e| cbs.iter().find(|c| c.executor == e).map(|c| c.status.clone()).unwrap_or_else(|| "no-callback".into())).collect();
    let counters = (0..n_exec).map(|e| cbs.iter().find(|c| c.executor == e).map(|c| (c.ok, c.timed_out, c.failed)).unwrap_or((0, 0, 0))).collect();
    if case.kind.is_mmap() { let _ = std::fs::remove_file(format!("/tmp/{name}.mmap")); }
    let chan = ChanOutcome { world, behs, n_exec, accepted: if sent_ok { all } else { vec![] }, at_close, finished_executors: n_exec as u32, statuses, counters, gave_up_sending: !sent_ok };
    MultiOutcome { chan, entitled, at_cancel, names }
}

type BoxMultiOutcome = Pin<Box<dyn Future<Output = MultiOutcome>>>;

fn multi_dispatch(case: MultiCase) -> BoxMultiOutcome {
    match case.kind {
        ChanKind::MultiArcAtomic    => Box::pin(multi_main::<ChannelMultiArcAtomic<u64, MULTI_B, MULTI_M>, _>(case)),
        ChanKind::MultiArcFullSync  => Box::pin(multi_main::<ChannelMultiArcFullSync<u64, MULTI_B, MULTI_M>, _>(case)),
        ChanKind::MultiArcCrossbeam => Box::pin(multi_main::<ChannelMultiArcCrossbeam<u64, MULTI_B, MULTI_M>, _>(case)),
        ChanKind::MultiOgreAtomic   => Box::pin(multi_main::<ChannelMultiOgreArcAtomic<u64, MULTI_B, MULTI_M>, _>(case)),
        ChanKind::MultiOgreFullSync => Box::pin(multi_main::<ChannelMultiOgreArcFullSync<u64, MULTI_B, MULTI_M>, _>(case)),
        ChanKind::MultiMmap         => Box::pin(multi_main::<ChannelMultiMmapLog<u64, MULTI_M>, _>(case)),
        other => panic!("not a Multi kind: {other:?}"),
    }
}

pub fn judge_multi(case: &MultiCase, m: &MultiOutcome) -> Vec<(Clause, String, String)> {
    let mut out = vec![];
    let o = &m.chan;
    let w = &o.world;
    let exec = case.exec;
    let limit = case.limit;
    let lim = if limit == 1 { "limit=1" } else { "limit>1" };
    let k = format!("multi/{}", exec.name());
    let cancelled = case.cancel.map(|c| c.0 as usize);
    // --- C06: at the instant close() returned, per listener
    for e in 0..o.n_exec {
        if Some(e) == cancelled { continue; }
        let unprocessed: Vec<u64> = m.entitled[e].iter().copied().filter(|v| !o.at_close.finished[e].contains(v)).collect();
        if unprocessed.is_empty() { continue; }
        let in_flight_only = unprocessed.iter().all(|v| o.at_close.started[e].contains(v));
        let sig = if in_flight_only && exec.futures() && limit > 1 { "multi/futures-executor/limit>1/item-futures-still-in-flight-when-close-returned".to_string() }
                  else { format!("{k}/{lim}/unprocessed-when-close-returned/{}", if in_flight_only { "in-flight" } else { "not-even-started" }) };
        out.push((Clause::C06, sig, format!("close() returned while listener {e} ({}) had not fully processed the accepted events {unprocessed:?}", m.names[e])));
        break;
    }
    if !o.at_close.returned { out.push((Clause::C06, format!("{k}/close-reported-failure"), "close(Duration::ZERO) answered false".into())); }
    if o.at_close.running != 0 { out.push((Clause::C06, format!("{k}/streams-running-after-close"), format!("running_streams_count() == {} right after close() returned", o.at_close.running))); }
    if o.at_close.open { out.push((Clause::C06, format!("{k}/open-after-close"), "is_channel_open() right after close() returned".into())); }
    // --- the cancelled executor (C07): everything accepted before the request, nothing sent after it had ended; at the return of the call
    if let (Some(j), Some((_, done_then, ok))) = (cancelled, m.at_cancel.as_ref()) {
        if !ok { out.push((Clause::C07, format!("{k}/flush_and_cancel-reported-failure"), format!("flush_and_cancel_executor({}) answered false", m.names[j]))); }
        let unprocessed: Vec<u64> = m.entitled[j].iter().copied().filter(|v| !done_then.contains(v)).collect();
        if !unprocessed.is_empty() {
            let started = w.started_of(j);
            let in_flight_only = unprocessed.iter().all(|v| started.contains(v));
            let sig = if in_flight_only && exec.futures() && limit > 1 { "multi/futures-executor/limit>1/item-futures-still-in-flight-when-flush_and_cancel-returned".to_string() }
                      else { format!("{k}/{lim}/unprocessed-when-flush_and_cancel-returned") };
            out.push((Clause::C07, sig, format!("flush_and_cancel_executor({}) returned while the events {unprocessed:?}, accepted before the call, had not been fully processed by that listener", m.names[j])));
        }
    }
    // --- finally: every listener processed exactly what it is entitled to
    for e in 0..o.n_exec {
        let fin = w.finished_of(e);
        if multiset(&fin) == multiset(&m.entitled[e]) { continue; }
        let lost: Vec<u64> = m.entitled[e].iter().copied().filter(|v| !fin.contains(v)).collect();
        let extra: Vec<u64> = fin.iter().copied().filter(|v| !m.entitled[e].contains(v)).collect();
        let role = if Some(e) == cancelled { "cancelled-listener" } else if case.oldies.is_some() && e == 0 { "old-events-listener" } else if case.oldies.is_some() && e == o.n_exec - 1 { "new-events-listener" } else { "listener" };
        let clause = if Some(e) == cancelled || (cancelled.is_some() && lost.iter().any(|v| *v > case.cancel.unwrap().1 as u64)) { Clause::C07 } else if role.contains("events-listener") { Clause::C12 } else { Clause::C06 };
        let what = if !lost.is_empty() { "missed-events" } else if !extra.is_empty() { "got-events-it-is-not-entitled-to" } else { "processed-twice" };
        out.push((clause, format!("{k}/{lim}/{role}/{what}"), format!("{role} {e} ({}) finally processed {fin:?}; entitled to {:?} (missed {lost:?}, not entitled {extra:?}; dropped mid-processing: {:?})", m.names[e], m.entitled[e], w.dropped_incomplete.lock().unwrap()[e])));
        break;
    }
    // --- C11 through the Multi
    for e in 0..o.n_exec {
        let max = w.max_in_flight[e].load(SeqCst);
        if exec.futures() && max > limit as i64 { out.push((Clause::C11, format!("{k}/limit-exceeded"), format!("executor {e} had {max} item futures in progress at once; the concurrency limit is {limit}"))); break; }
    }
    let errs: Vec<u64> = (0..o.n_exec).flat_map(|e| w.finished_of(e)).filter(|v| o.behs[*v as usize - 1].is_err()).collect();
    let cb_errs: Vec<u64> = w.errs.lock().unwrap().iter().map(|x| x.0).collect();
    if exec.has_err_callback() && multiset(&cb_errs) != multiset(&errs) { out.push((Clause::C11, format!("{k}/error-callback-mismatch"), format!("failed items (over all listeners) {errs:?}; error callback invoked for {cb_errs:?}"))); }
    for e in 0..o.n_exec {
        let fin = w.finished_of(e);
        let f = fin.iter().filter(|v| o.behs[**v as usize - 1].is_err()).count() as u32;
        let want = (fin.len() as u32 - f, 0u32, f);
        if o.counters[e] != want && o.statuses[e] != "no-callback" { out.push((Clause::C11, format!("{k}/counters-mismatch"), format!("executor {e} processed ok/timed-out/failed = {want:?}; its close callback saw {:?}", o.counters[e]))); break; }
    }
    // --- C12: one close callback per executor, after its last item, in the right ended state
    let cbs = w.callbacks.lock().unwrap().clone();
    for e in 0..o.n_exec {
        let mine: Vec<&CallbackRec> = cbs.iter().filter(|c| c.executor == e).collect();
        if mine.len() != 1 { out.push((Clause::C12, format!("{k}/close-callback-count"), format!("the close callback of executor {e} ({}) ran {} times", m.names[e], mine.len()))); break; }
        let cb = mine[0];
        let last = w.finished.lock().unwrap()[e].iter().map(|x| x.1).max().unwrap_or(0);
        if cb.stamp < last { out.push((Clause::C12, format!("{k}/close-callback-before-last-item"), format!("the close callback of executor {e} ran at logical time {} but one of its items completed at {last}", cb.stamp))); break; }
        // (an executor that had not started yet when it was scheduled to finish ends as StreamEnded: the property only forbids ProgrammaticallyEnded for executors nobody scheduled to finish)
        let fine = cb.status == "StreamEnded" || (cb.status == "ProgrammaticallyEnded" && Some(e) == cancelled);
        if !fine { out.push((Clause::C12, format!("{k}/close-callback-status/{}", cb.status), format!("executor {e} ({}) {}: its close callback found it in state {}", m.names[e], if Some(e) == cancelled { "was ended through flush_and_cancel_executor" } else { "was never scheduled to finish" }, cb.status))); break; }
        if cb.finish_delta < cb.start_delta || cb.finish_delta == u64::MAX { out.push((Clause::C12, format!("{k}/finish-before-start"), format!("executor {e}: start delta {} ns, finish delta {} ns", cb.start_delta, cb.finish_delta))); break; }
    }
    if let Some((true, _)) = case.oldies {
        let last_old = w.finished.lock().unwrap()[0].iter().map(|x| x.1).max().unwrap_or(0);
        let first_new = w.started.lock().unwrap()[o.n_exec - 1].iter().map(|x| x.1).min();
        let old_complete = multiset(&w.finished_of(0)) == multiset(&m.entitled[0]);
        if let Some(f) = first_new { if f < last_old || (!old_complete) { out.push((Clause::C12, format!("{k}/sequential-transition/new-event-processed-before-the-old-ones"), format!("sequential transition: a new event entered processing at logical time {f}, the last old event completed at {last_old}"))); } }
    }
    out
}

pub fn multi_case_strategy() -> BoxedStrategy<MultiCase> {
    let beh = prop_oneof![4 => Just(Beh::Ok), 3 => (1u8..4).prop_map(Beh::OkYields), 2 => Just(Beh::OkGated), 2 => Just(Beh::Err), 1 => (1u8..4).prop_map(Beh::ErrYields)];
    (any::<u16>(), any::<u16>(), 1u8..=4, rt_strategy(), 1u8..=3, vec(beh, 0..20),
     prop_oneof![2 => Just(None), 1 => (any::<u8>(), 0u8..20).prop_map(Some)], prop_oneof![1 => Just(None), 2 => (any::<bool>(), 0u8..8).prop_map(Some)], any::<bool>(), 0u8..10)
        .prop_map(|(k, e, limit, rt, listeners, items, cancel, oldies, gate_after_close, release_after)| {
            multi_sanitize(MultiCase { kind: pick(&crate::chan::MULTI_KINDS, k), exec: pick(&UNI_EXECS, e), limit, rt, listeners, items, cancel, oldies, gate_after_close, release_after })
        }).boxed()
}

pub fn multi_report(case: &MultiCase, clause: Clause, known_is: &dyn Fn(&str) -> bool) -> RunReport {
    let case = &multi_sanitize(case.clone());
    let c2 = case.clone();
    let end = run_case(case.rt, move || multi_dispatch(c2));
    let behs = multi_behs(case);
    let mut classes = vec![format!("kind:{}", case.kind.short()), format!("fn:{}", case.exec.name()), format!("limit:{}", case.limit), format!("runtime:{}", case.rt.name()), format!("listeners:{}", case.listeners)];
    if case.cancel.is_some() { classes.push("one-executor-cancelled".into()); }
    if let Some((seq, _)) = case.oldies { classes.push(format!("old/new-pair(sequential={seq})")); }
    let busy = case.gate_after_close && behs.contains(&Beh::OkGated);
    if busy { classes.push("work-outstanding-when-close-was-called".into()); }
    let fingerprint = { use std::hash::{Hash, Hasher}; let mut h = std::collections::hash_map::DefaultHasher::new(); format!("{clause:?}{case:?}").hash(&mut h); h.finish() };
    let mut nontrivial = false;
    let (verdict, summary) = match end {
        CaseEnd::Done(m) if m.chan.gave_up_sending => (Verdict::Inconclusive("sends-never-accepted".into()), "gave up sending".into()),
        CaseEnd::Done(m) => {
            let o = &m.chan;
            let summary = format!("{} items {:?}; entitled {:?}; processed when close() returned: {:?}; finally: {:?}; callbacks {:?}", behs.len(), behs.iter().map(|b| b.short()).collect::<Vec<_>>(), m.entitled,
                                  o.at_close.finished, (0..o.n_exec).map(|e| o.world.finished_of(e)).collect::<Vec<_>>(), o.world.callbacks.lock().unwrap().iter().map(|c| (c.executor, c.stamp, c.status.clone())).collect::<Vec<_>>());
            let found = judge_multi(case, &m);
            nontrivial = match clause {
                Clause::C06 => busy || !behs.is_empty() && !case.rt.paused(),
                Clause::C12 => o.n_exec >= 2,
                Clause::C07 => case.cancel.is_some(),
                Clause::C11 => behs.iter().any(|b| b.is_err()),
            };
            let mine: Vec<&(Clause, String, String)> = found.iter().filter(|f| f.0 == clause).collect();
            let pickd = mine.iter().find(|f| !known_is(&f.1)).or(mine.first());
            (match pickd { None => Verdict::Pass, Some((_, signature, detail)) => Verdict::Violation { signature: signature.clone(), detail: format!("{detail}; {summary}") } }, summary)
        },
        CaseEnd::Hang { decided } => { if std::env::var("RMV_SHOW_HANGS").is_ok() { eprintln!("HANG {}", serde_json::to_string(case).unwrap()); } (Verdict::Inconclusive(if decided { "no-progress(paused-clock)".into() } else { "watchdog".into() }), "did not finish".into()) },
        CaseEnd::Panicked(p) => (Verdict::Violation { signature: format!("multi/{}/panic", case.exec.name()), detail: format!("a task panicked: {p:?}") }, format!("panic {p:?}")),
    };
    if matches!(verdict, Verdict::Violation { .. }) { nontrivial = true; }
    RunReport { verdict, nontrivial, classes, fingerprint, trace: None, summary }
}

macro_rules! multi_part {
    ($name:ident, $part:expr, $clause:expr, $prop:expr, $quick:expr, $thorough:expr, $rule:expr) => {
        pub struct $name;
        impl Property for $name {
            type Case = MultiCase;
            fn attempts(&self, case: &MultiCase) -> u32 { if case.rt.paused() { 1 } else { 25 } }
            fn part(&self) -> &'static str { $part }
            fn strategy(&self, _tier: Tier) -> BoxedStrategy<MultiCase> { multi_case_strategy() }
            fn cases(&self, tier: Tier) -> u32 { match tier { Tier::Quick => $quick, Tier::Thorough => $thorough } }
            fn run(&self, case: &MultiCase) -> RunReport { multi_report(case, $clause, &known_for($prop)) }
            fn rule(&self) -> String { format!("generated: Multi over the 6 channel kinds (BUFFER_SIZE 8, MAX_STREAMS 4) x {{spawn_executor | spawn_futures_executor | spawn_fallibles_executor | spawn_non_futures_non_fallible_executor}} x concurrency limit 1..4 x runtime x 1..3 listeners (executors) x 0..19 events (the Arc kinds at most BUFFER_SIZE: they wait when full) over {{ok, ok after k yields, ok once a gate opens, error, error after k yields}} x optionally flush_and_cancel_executor() of one listener after i sends x on the log channel optionally one old/new executor pair (sequential transition on / off) subscribed after p events x gate opening before or after close() was called; timeout Duration::ZERO; {}", $rule) }
        }
    }
}

multi_part!(C06Multi, "multi-close", Clause::C06, "C06", 8_000, 80_000,
    "oracle: at the instant close() returns every listener that was not cancelled has fully processed every event it is entitled to, close answered true, running_streams_count()==0, !is_channel_open(); after all close callbacks each listener processed exactly its entitlement (nothing discarded, nothing twice); non-trivial: work outstanding when close() was called, or a multi-thread runtime");
multi_part!(C07Multi, "multi-cancel-one", Clause::C07, "C07", 6_000, 60_000,
    "oracle: flush_and_cancel_executor(j) answers true and returns after listener j has fully processed everything accepted before the call; listener j processes nothing sent after it ended; every other listener still processes every event, also the ones sent afterwards; non-trivial: an executor was cancelled");
multi_part!(C11Multi, "multi-accounting", Clause::C11, "C11", 6_000, 60_000,
    "oracle: per executor at most `limit` item futures in progress; the error callback runs once per failed item per listener; each executor's ok / failed counters (seen in its close callback) equal what it processed; non-trivial: a failing item");
multi_part!(C12Multi, "multi-lifecycle", Clause::C12, "C12", 8_000, 80_000,
    "oracle: every executor's close callback runs exactly once, after the last item of that executor, finding it in state StreamEnded -- or ProgrammaticallyEnded iff it was ended through flush_and_cancel_executor -- with finish >= start; old/new pair: the old executor processes exactly the p events published before it subscribed, the new one exactly the rest, and with sequential_transition no new event enters processing before the last old one completed; non-trivial: at least 2 executors");
