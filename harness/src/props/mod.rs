pub mod chanrun;
pub mod containers;
pub mod uni;
