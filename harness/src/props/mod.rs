pub mod containers;
