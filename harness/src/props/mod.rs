pub mod alloc;
pub mod chanrun;
pub mod containers;
pub mod life;
pub mod log;
pub mod rt;
pub mod seq;
pub mod uni;
