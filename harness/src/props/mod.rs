pub mod alloc;
pub mod chanrun;
pub mod containers;
pub mod life;
pub mod log;
pub mod seq;
pub mod uni;
