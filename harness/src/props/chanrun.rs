//! The shared controlled-schedule scenario over Uni / Multi channels: scripted producers, driven consumer streams
//! (poll, park on Pending, re-poll when woken), optional late listeners / early leavers / cancellers.
//! One execution yields one [ChanRun] record -- sends, polls, releases, wakes, the state at quiescence, the final drain,
//! the drop ledger -- which the per-property oracles (c01.rs ...) then judge.

use crate::chan::{self, Chan, ChanKind, Entry, Gate, Item, SendRes, StreamH};
use crate::driver::pick;
use crate::payload::{self, Ledger};
use crate::sched::{noop_waker, EndState, ParkResult, Sched, Schedule, ThreadCtx};
use proptest::prelude::*;
use serde::{Deserialize, Serialize};
use std::future::Future;
use std::sync::atomic::Ordering::Relaxed;
use std::sync::{Arc, Mutex};
use std::task::{Context, Poll};

#[derive(Clone, Copy, Debug, PartialEq, Eq, Serialize, Deserialize)]
pub enum POp {
    /// one attempt through the given entry point
    Send(Entry),
    /// attempts (at most 4, letting the other threads run in between) until accepted
    SendRetry(Entry),
    /// reserve a slot and keep it outstanding
    Reserve,
    /// fill the *oldest* outstanding reservation of this thread and send it (retrying until it answers true)
    SendOldestReserved,
    /// cancel the *newest* outstanding reservation of this thread (retrying until it answers true)
    CancelNewestReserved,
    /// start a `send_with_async` whose setter suspends `n` times; poll it once
    AsyncBegin(u8),
    /// poll the oldest unfinished async send of this thread once
    AsyncPoll,
    /// `pending_items_count()`
    Len,
    /// `cancel_all_streams()`
    CancelAll,
    /// `gracefully_end_all_streams(Duration::ZERO)`, driven to completion on this thread (a paused-clock runtime: its 1 ms retry sleeps are virtual)
    EndAll,
    /// `gracefully_end_stream(id of consumer #n's up-front stream, Duration::ZERO)`, driven to completion on this thread
    EndStream(u8),
    /// n harness-level scheduling points
    Pause(u8),
}

#[derive(Clone, Debug, PartialEq, Eq, Serialize, Deserialize, Default)]
pub struct Consumer {
    /// scheduling points an item is held for before its handle is released
    pub hold:           u8,
    /// poll numbers (0-based) at which the task switches to a fresh waker (`will_wake` false against the old one)
    pub fresh_waker_at: Vec<u8>,
    /// the stream is created by the consumer thread itself, as its first action (a listener that joins late)
    pub create_late:    bool,
    /// the stream is dropped by its thread after this many items were yielded (a listener that leaves early)
    pub stop_after:     Option<u8>,
    /// clone the handle and release the clone on this thread after the original (shared wrappers; C05)
    pub clone_handle:   bool,
    /// convert a unique handle into a shared one before releasing it (OgreUnique; C05)
    pub into_shared:    bool,
    /// the consumer stops polling (keeping its stream alive) after this many items: what follows stays buffered
    #[serde(default)]
    pub max_items:      Option<u8>,
    /// the stream is dropped by its own thread as soon as it has answered end-of-stream (what an executor task does)
    #[serde(default)]
    pub drop_on_end:    bool,
    /// after having dropped its ended stream the consumer subscribes again (a fresh stream, possibly re-using the id), polls it up to n times
    /// (parking in between) and drops it
    #[serde(default)]
    pub resubscribe:    Option<u8>,
}

#[derive(Clone, Debug, Serialize, Deserialize)]
pub struct ChanCase {
    pub kind:        ChanKind,
    pub buffer:      u8,
    pub max_streams: u8,
    /// sequence origin of every ring counter of the channel (0: fresh)
    pub origin:      u32,
    /// events sent (and accepted) before the threads start
    pub prefill:     u8,
    pub producers:   Vec<Vec<POp>>,
    pub consumers:   Vec<Consumer>,
    /// async sends still suspended at the end of a producer's script: true = drive them to completion, false = leave them suspended for ever
    pub finish_async: bool,
    /// tear the channel down without draining what is still buffered
    #[serde(default)]
    pub leftovers:   bool,
    pub schedule:    Schedule,
}

#[derive(Clone, Copy, Debug, PartialEq, Eq)]
pub enum SendKind { Plain, ReservedSend, ReservedCancel }

#[derive(Clone, Debug)]
pub struct SendRec {
    pub thread:   u8,
    pub entry:    Entry,
    pub val:      u64,
    pub call:     u64,
    pub ret:      u64,
    pub accepted: bool,
    pub contract_ok: bool,
    /// the operation never returned within the run (async send left suspended / run aborted)
    pub unfinished: bool,
    /// scheduling points the calling thread itself executed inside the call while no other thread was inside an operation
    /// (steps that cannot be explained by waiting for a peer's operation in progress)
    pub own_steps: u32,
    pub cancelled: bool,
}

#[derive(Clone, Copy, Debug, PartialEq, Eq)]
pub enum PollRes { Item { val: u64, intact: bool, addr: usize }, Pending, End }

#[derive(Clone, Debug)]
pub struct PollRec {
    pub thread: u8,
    /// index of the consumer (not the stream id)
    pub consumer: u8,
    pub stream: u32,
    pub call:   u64,
    pub ret:    u64,
    pub res:    PollRes,
    /// true for the harness' final drain after quiescence
    pub drain:  bool,
    /// the poll was made on the stream the consumer created after its first one had ended (Consumer::resubscribe)
    pub resub:  bool,
}

#[derive(Clone, Debug)]
pub struct RelRec { pub val: u64, pub consumer: u8, pub call: u64, pub ret: u64, pub intact_before: bool }

#[derive(Clone, Debug, Default)]
pub struct ConsumerEnd {
    pub stream_id: Option<u32>,
    pub created_at: Option<(u64, u64)>,
    pub dropped_at: Option<(u64, u64)>,
    /// saw `Ready(None)`
    pub ended:     bool,
    /// was parked (unwoken) when the run reached quiescence
    pub parked_at_quiescence: bool,
    pub polls:     u32,
    /// Consumer::resubscribe: call / return stamps of the creation of the second stream, and of its drop
    pub resub_at:  Option<(u64, u64)>,
    pub resub_dropped_at: Option<(u64, u64)>,
}

#[derive(Clone, Debug)]
pub struct LenRec { pub thread: u8, pub call: u64, pub ret: u64, pub len: u32 }

#[derive(Clone, Debug)]
pub struct CancelRec { pub thread: u8, pub call: u64, pub ret: u64 }

#[derive(Clone, Debug)]
pub struct EndRec { pub thread: u8, pub call: u64, pub ret: u64, /** consumer whose stream was told to end (None: all streams) */ pub target: Option<u8>, /** streams left running (end all) / 1 = true, 0 = false (end one) */ pub answer: u32 }

pub struct ChanRun {
    pub end:       EndState,
    pub ends:      Vec<EndRec>,
    pub trace:     Vec<(u32, u8)>,
    pub inside:    u32,
    pub sends:     Vec<SendRec>,
    pub polls:     Vec<PollRec>,
    pub releases:  Vec<RelRec>,
    pub lens:      Vec<LenRec>,
    pub cancels:   Vec<CancelRec>,
    pub consumers: Vec<ConsumerEnd>,
    /// per consumer: (tick, waking thread) of every wake of that consumer's task
    pub wakes:     Vec<Vec<(u64, usize)>>,
    pub dead_waker_uses: u32,
    pub dead_waker_uses_superseded: u32,
    /// (tick, thread, tag) of selected library yield points (sched::MARK_TAGS)
    pub marks:     Vec<(u64, usize, &'static str)>,
    pub prefill:   Vec<u64>,
    pub pending_at_quiescence: u32,
    pub running_at_quiescence: u32,
    /// tick at which quiescence was observed (all later stamps belong to the harness' sequential epilogue)
    pub quiescence_tick: u64,
    /// after drain + release of everything: how many of BUFFER_SIZE+1 further sends were accepted (None: not probed)
    pub capacity_probe: Option<u32>,
    /// events found in the queues of vacant stream ids by fresh listeners (see `Epilogue::recycle_drain`)
    pub stale_after_recycling: Vec<u64>,
    pub ledger:    Vec<(u64, u32)>,
    pub ledger_corrupt: u32,
    /// number of producer threads
    pub n_producers: usize,
    pub open_after: Option<bool>,
    /// a send of the sequential set-up phase (fewer events than BUFFER_SIZE, nothing consumed yet) was rejected
    pub prefill_rejected: bool,
    /// per thread: the operation it was executing when the run ended (meaningful for stalls)
    pub cur_ops: Vec<String>,
    pub running_after_drop: Option<u32>,
    /// after every stream was dropped: could MAX_STREAMS new streams be created (no panic), and what did running_streams_count say then
    pub recreate: Option<(bool, u32)>,
}

fn show_entry(e: Entry) -> String {
    match e { Entry::Send => "send".into(), Entry::SendWith => "send_with".into(), Entry::SendAsync(k) => format!("send_with_async/{k}"), Entry::Reserved => "reserve+send_reserved".into(), Entry::Derived => "send_derived".into() }
}

impl ChanRun {
    pub fn render(&self) -> String {
        #[derive(Clone)]
        struct Ev { at: u64, text: String }
        let mut evs: Vec<Ev> = vec![];
        for s in &self.sends {
            let what = if s.cancelled { "CANCELLED".to_string() } else if s.unfinished { "UNFINISHED".into() } else if s.accepted { "ok".into() } else { "REJECTED".to_string() };
            evs.push(Ev { at: s.call, text: format!("P{}[{}..{}]{}({})={}", s.thread, s.call, s.ret, show_entry(s.entry), payload::show(s.val), what) });
        }
        for p in &self.polls {
            let r = match p.res { PollRes::Item { val, .. } => payload::show(val), PollRes::Pending => "PENDING".into(), PollRes::End => "END".into() };
            evs.push(Ev { at: p.call, text: format!("{}{}{}[{}..{}]poll(s{})={}", if p.drain { "drain" } else { "C" }, p.consumer, if p.resub { "'" } else { "" }, p.call, p.ret, p.stream, r) });
        }
        for l in &self.lens { evs.push(Ev { at: l.call, text: format!("T{}[{}..{}]len={}", l.thread, l.call, l.ret, l.len) }); }
        for c in &self.cancels { evs.push(Ev { at: c.call, text: format!("T{}[{}..{}]cancel_all", c.thread, c.call, c.ret) }); }
        for e in &self.ends { evs.push(Ev { at: e.call, text: match e.target { None => format!("T{}[{}..{}]gracefully_end_all_streams={}", e.thread, e.call, e.ret, e.answer), Some(c) => format!("T{}[{}..{}]gracefully_end_stream(C{c})={}", e.thread, e.call, e.ret, e.answer == 1) } }); }
        for (ci, w) in self.wakes.iter().enumerate() { for (t, by) in w { evs.push(Ev { at: *t, text: format!("wake(C{ci} by T{by})@{t}") }); } }
        for (ci, c) in self.consumers.iter().enumerate() {
            if let Some((a, b)) = c.created_at { evs.push(Ev { at: a, text: format!("C{ci}[{a}..{b}]create(s{})", c.stream_id.unwrap_or(99)) }); }
            if let Some((a, b)) = c.dropped_at { evs.push(Ev { at: a, text: format!("C{ci}[{a}..{b}]drop_stream") }); }
        }
        evs.sort_by_key(|e| e.at);
        let mut s = evs.into_iter().map(|e| e.text).collect::<Vec<_>>().join(" ");
        s.push_str(&format!(" | quiescence@{}: pending={} running={} parked={:?}", self.quiescence_tick, self.pending_at_quiescence, self.running_at_quiescence,
                            self.consumers.iter().map(|c| c.parked_at_quiescence).collect::<Vec<_>>()));
        s
    }
}

/// Holds a value whose destructor must not run while the thread is being unwound by an aborted run
/// (the channel may be in a state -- a spin lock held by a thread that no longer exists -- the destructor cannot cope with)
pub(crate) struct LeakOnUnwind<T>(Option<T>);
impl<T> LeakOnUnwind<T> {
    pub(crate) fn new(v: T) -> Self { LeakOnUnwind(Some(v)) }
    pub(crate) fn take(mut self) -> T { self.0.take().unwrap() }
}
impl<T> std::ops::Deref for LeakOnUnwind<T> { type Target = T; fn deref(&self) -> &T { self.0.as_ref().unwrap() } }
impl<T> std::ops::DerefMut for LeakOnUnwind<T> { fn deref_mut(&mut self) -> &mut T { self.0.as_mut().unwrap() } }
impl<T> Drop for LeakOnUnwind<T> {
    fn drop(&mut self) { if std::thread::panicking() { std::mem::forget(self.0.take()); } }
}

#[derive(Default)]
struct Log {
    sends:    Vec<SendRec>,
    polls:    Vec<PollRec>,
    releases: Vec<RelRec>,
    lens:     Vec<LenRec>,
    cancels:  Vec<CancelRec>,
    ends:     Vec<EndRec>,
    consumers: Vec<ConsumerEnd>,
    cur_ops:  Vec<String>,
}

struct PendingAsync {
    fut:  chan::BoxFut<'static, SendRes>,
    idx:  usize,        // index into log.sends
    step0: u32,
}

/// what the epilogue does once the run is quiescent
#[derive(Clone, Copy, Debug, Default)]
pub struct Epilogue {
    /// poll every live stream until it answers Pending / End, recording what is still buffered
    pub drain: bool,
    /// after the drain, send BUFFER_SIZE+1 events (consuming nothing) and report how many were accepted
    pub capacity_probe: bool,
    /// after dropping every stream: running_streams_count must be 0 and MAX_STREAMS new streams can be created
    pub recreate_probe: bool,
    /// before the capacity probe: take every vacant stream id with a fresh listener, poll it dry (releasing whatever a departed listener's queue
    /// still holds) and drop it again; what they yielded is reported in `stale_after_recycling`
    pub recycle_drain: bool,
}

pub fn execute(case: &ChanCase, epi: Epilogue) -> ChanRun {
    let ledger = Ledger::new();
    payload::set_current_ledger(Some(Arc::clone(&ledger)));
    let n_prod = case.producers.len();
    let n_cons = case.consumers.len();
    let log = Arc::new(Mutex::new(Log { consumers: vec![ConsumerEnd::default(); n_cons], cur_ops: vec![String::new(); n_prod + n_cons], ..Default::default() }));
    // set-up (channel, the streams created up front in consumer order, the prefill) -- guarded: a broken channel must not hang the harness
    let late: Vec<bool> = case.consumers.iter().map(|c| c.create_late).collect();
    let (kind, buffer, max_streams, origin, n_prefill) = (case.kind, case.buffer, case.max_streams, case.origin, case.prefill);
    type Setup = (Arc<dyn Chan>, Vec<Option<Box<dyn StreamH>>>, Vec<u64>, bool);
    let setup: Result<Setup, EndState> = crate::sched::guarded(20_000, move || {
        let chan: Arc<dyn Chan> = chan::make(kind, buffer, max_streams, origin);
        let streams: Vec<Option<Box<dyn StreamH>>> = late.iter().map(|l| if *l { None } else { Some(chan.create_stream()) }).collect();
        let mut prefill = vec![];
        let mut rejected = false;
        for i in 0..n_prefill {
            let v = payload::plain(200, i as u32 + 1);
            if !chan.send(v).accepted { rejected = true; break; }
            prefill.push(v);
        }
        let r: Setup = (chan, LeakOnUnwind::new(streams).take(), prefill, rejected);
        r
    });
    let (chan, streams0, prefill, prefill_rejected) = match setup {
        Ok(s) => s,
        Err(end) => {
            payload::set_current_ledger(None);
            return ChanRun { end: match end { EndState::Stall { .. } => EndState::Stall { stuck: vec![(n_prod + n_cons, 0)], parked: vec![] }, other => other }, trace: vec![], inside: 0,
                ends: vec![], sends: vec![], polls: vec![], releases: vec![], lens: vec![], cancels: vec![], consumers: vec![ConsumerEnd::default(); n_cons], wakes: vec![vec![]; n_cons], dead_waker_uses: 0, dead_waker_uses_superseded: 0, marks: vec![],
                prefill: vec![], pending_at_quiescence: 0, running_at_quiescence: 0, quiescence_tick: 0, capacity_probe: None, stale_after_recycling: vec![], ledger: vec![], ledger_corrupt: 0, n_producers: n_prod, open_after: None,
                prefill_rejected: false, cur_ops: { let mut v = vec![String::new(); n_prod + n_cons]; v.push("set-up (create channel / streams / prefill)".into()); v }, running_after_drop: None, recreate: None };
        },
    };
    for (ci, s) in streams0.iter().enumerate() {
        if let Some(s) = s {
            let mut g = log.lock().unwrap();
            g.consumers[ci].stream_id = Some(s.id());
            g.consumers[ci].created_at = Some((0, 0));
        }
    }
    let streams: Arc<Mutex<Vec<Option<Box<dyn StreamH>>>>> = Arc::new(Mutex::new(streams0));

    let sched = Sched::new(n_prod + n_cons, case.schedule.clone(), 30_000);
    let mut bodies: Vec<Box<dyn FnOnce(&ThreadCtx) + Send>> = vec![];
    for (pi, script) in case.producers.iter().enumerate() {
        let script = script.clone();
        let chan = Arc::clone(&chan);
        let log = Arc::clone(&log);
        let ledger = Arc::clone(&ledger);
        let finish_async = case.finish_async;
        bodies.push(Box::new(move |ctx: &ThreadCtx| {
            payload::set_current_ledger(Some(ledger));
            producer_body(ctx, pi, &script, &*chan, &log, finish_async);
        }));
    }
    for (ci, cons) in case.consumers.iter().enumerate() {
        let cons = cons.clone();
        let chan = Arc::clone(&chan);
        let log = Arc::clone(&log);
        let ledger = Arc::clone(&ledger);
        let streams = Arc::clone(&streams);
        bodies.push(Box::new(move |ctx: &ThreadCtx| {
            payload::set_current_ledger(Some(ledger));
            consumer_body(ctx, ci, n_prod + ci, &cons, &*chan, &log, &streams);
        }));
    }
    let outcome = sched.execute(bodies);
    let quiescence_tick = sched.tick();

    let mut run = ChanRun {
        end: outcome.end.clone(), trace: outcome.trace, inside: outcome.switches_inside_ops,
        ends: vec![], sends: vec![], polls: vec![], releases: vec![], lens: vec![], cancels: vec![], consumers: vec![],
        wakes: outcome.wakes[n_prod..].to_vec(), dead_waker_uses: outcome.dead_waker_uses, dead_waker_uses_superseded: outcome.dead_waker_uses_superseded, marks: outcome.marks.clone(), prefill,
        pending_at_quiescence: 0, running_at_quiescence: 0, quiescence_tick, capacity_probe: None, stale_after_recycling: vec![],
        ledger: vec![], ledger_corrupt: 0, n_producers: n_prod, open_after: None, prefill_rejected, cur_ops: vec![], running_after_drop: None, recreate: None,
    };
    if outcome.end != EndState::Completed {
        // the channel may be in a state its destructors cannot cope with (and threads were unwound mid-operation): leak everything
        let l = std::mem::take(&mut *log.lock().unwrap());
        run.sends = l.sends; run.polls = l.polls; run.releases = l.releases; run.lens = l.lens; run.cancels = l.cancels; run.ends = l.ends; run.consumers = l.consumers; run.cur_ops = l.cur_ops;
        let leftover_streams = streams.lock().unwrap().drain(..).collect::<Vec<_>>();
        if case.kind.is_mmap() {
            // (each log channel maps terabytes of address space: leaking many of them exhausts it; its teardown takes no spin lock a dead thread could hold)
            let _ = crate::sched::guarded(5_000, move || { let s = LeakOnUnwind::new(leftover_streams); let c = LeakOnUnwind::new(chan); drop(s.take()); drop(c.take()); });
        } else {
            std::mem::forget(leftover_streams);
            std::mem::forget(chan);
        }
        payload::set_current_ledger(None);
        return run;
    }
    run.pending_at_quiescence = chan.pending();
    run.running_at_quiescence = chan.running();

    // --- epilogue (sequential, on this thread; the library's hooks pass through here)
    let mut tick = quiescence_tick + 10;
    let mut live: Vec<(usize, Box<dyn StreamH>)> = streams.lock().unwrap().iter_mut().enumerate().filter_map(|(i, s)| s.take().map(|s| (i, s))).collect();
    let suspended_for_ever = log.lock().unwrap().sends.iter().any(|s| s.unfinished);
    if epi.drain {
        // the drain runs as one logical thread under its own scheduler: if a poll can never return (a lock held by a send that
        // stays suspended for ever) that is a decided stall, not a hang
        let dsched = Sched::new(1, Schedule::Sparse(vec![]), 20_000);
        let holder: Arc<Mutex<Option<Vec<(usize, Box<dyn StreamH>)>>>> = Arc::new(Mutex::new(None));
        let holder2 = Arc::clone(&holder);
        let log2 = Arc::clone(&log);
        let ledger2 = Arc::clone(&ledger);
        let buffer = case.buffer as usize;
        let live_in = LeakOnUnwind::new(std::mem::take(&mut live));
        let tick0 = tick;
        let body: Box<dyn FnOnce(&ThreadCtx) + Send> = Box::new(move |_ctx: &ThreadCtx| {
            payload::set_current_ledger(Some(ledger2));
            let mut live = live_in;
            let mut tick = tick0;
            let waker = noop_waker();
            for (ci, s) in live.iter_mut() {
                let mut guard = 0;
                loop {
                    guard += 1;
                    if guard > 4 * buffer + 64 { break; }
                    let call = tick; tick += 1;
                    let r = s.poll(&waker);
                    let ret = tick; tick += 1;
                    let (res, item): (PollRes, Option<Item>) = match r {
                        Poll::Ready(Some(it)) => (PollRes::Item { val: it.val(), intact: it.intact(), addr: it.addr() }, Some(it)),
                        Poll::Ready(None) => (PollRes::End, None),
                        Poll::Pending => (PollRes::Pending, None),
                    };
                    log2.lock().unwrap().polls.push(PollRec { thread: 250, consumer: *ci as u8, stream: s.id(), call, ret, res, drain: true, resub: false });
                    match item {
                        Some(it) => {
                            let intact_before = it.intact();
                            let val = it.val();
                            let it = LeakOnUnwind::new(it);
                            let c = tick; tick += 1;
                            drop(it);
                            let r = tick; tick += 1;
                            log2.lock().unwrap().releases.push(RelRec { val, consumer: *ci as u8, call: c, ret: r, intact_before });
                        },
                        None => break,
                    }
                }
            }
            *holder2.lock().unwrap() = Some(live.take());
        });
        let dout = dsched.execute(vec![body]);
        tick += 1000;
        let got = holder.lock().unwrap().take();
        match got {
            Some(l) if dout.end == EndState::Completed => live = l,
            _ => {
                // the drain could not finish: report it as the end state of the run and leak everything
                run.end = match dout.end { EndState::Stall { .. } => EndState::Stall { stuck: vec![(n_prod + n_cons, 0)], parked: vec![] }, other => other };
                let l = std::mem::take(&mut *log.lock().unwrap());
                run.sends = l.sends; run.polls = l.polls; run.releases = l.releases; run.lens = l.lens; run.cancels = l.cancels; run.ends = l.ends; run.consumers = l.consumers; run.cur_ops = l.cur_ops;
                run.cur_ops.push("poll".into());
                std::mem::forget(chan);
                payload::set_current_ledger(None);
                return run;
            },
        }
    }
    let _ = &mut tick;
    if epi.recycle_drain && epi.capacity_probe && !suspended_for_ever {
        let c2 = Arc::clone(&chan);
        let max = case.max_streams as u32;
        let res = crate::sched::guarded(20_000, move || {
            let waker = noop_waker();
            let mut fresh = LeakOnUnwind::new(vec![]);
            let mut stale = vec![];
            while c2.running() < max && fresh.len() < max as usize {
                let mut s = c2.create_stream();
                let mut n = 0;
                while let Poll::Ready(Some(it)) = s.poll(&waker) { stale.push(it.val()); drop(it); n += 1; if n > 64 { break; } }
                fresh.push(s);
            }
            drop(fresh.take());
            stale
        });
        if let Ok(stale) = res { run.stale_after_recycling = stale; }
    }
    if epi.capacity_probe && !suspended_for_ever {
        let c2 = Arc::clone(&chan);
        let n = case.buffer as u32 + 1;
        match crate::sched::guarded(20_000, move || { let mut accepted = 0; for i in 0..n { if c2.send(payload::plain(201, i + 1)).accepted { accepted += 1; } } accepted }) {
            Ok(accepted) => run.capacity_probe = Some(accepted),
            Err(end) => {
                run.end = match end { EndState::Stall { .. } => EndState::Stall { stuck: vec![(n_prod + n_cons, 0)], parked: vec![] }, other => other };
                let l = std::mem::take(&mut *log.lock().unwrap());
                run.sends = l.sends; run.polls = l.polls; run.releases = l.releases; run.lens = l.lens; run.cancels = l.cancels; run.ends = l.ends; run.consumers = l.consumers; run.cur_ops = l.cur_ops;
                run.cur_ops.push("send (capacity probe after the run)".into());
                std::mem::forget(live);
                std::mem::forget(chan);
                payload::set_current_ledger(None);
                return run;
            },
        }
    }
    run.open_after = Some(chan.is_open());
    if suspended_for_ever {
        // a send that stays suspended may hold ring state (a lock, a reservation) for ever: the destructors could spin on it
        let l = std::mem::take(&mut *log.lock().unwrap());
        run.sends = l.sends; run.polls = l.polls; run.releases = l.releases; run.lens = l.lens; run.cancels = l.cancels; run.ends = l.ends; run.consumers = l.consumers; run.cur_ops = l.cur_ops;
        std::mem::forget(live);
        std::mem::forget(chan);
        payload::set_current_ledger(None);
        return run;
    }
    {
        let live2 = std::mem::take(&mut live);
        if let Err(end) = crate::sched::guarded(20_000, move || { let l = LeakOnUnwind::new(live2); drop(l.take()); }) {
            run.end = match end { EndState::Stall { .. } => EndState::Stall { stuck: vec![(n_prod + n_cons, 0)], parked: vec![] }, other => other };
            let l = std::mem::take(&mut *log.lock().unwrap());
            run.sends = l.sends; run.polls = l.polls; run.releases = l.releases; run.lens = l.lens; run.cancels = l.cancels; run.ends = l.ends; run.consumers = l.consumers; run.cur_ops = l.cur_ops;
            run.cur_ops.push("drop of the streams (teardown)".into());
            std::mem::forget(chan);
            payload::set_current_ledger(None);
            return run;
        }
    }
    if epi.recreate_probe {
        run.running_after_drop = Some(chan.running());
        let chan2 = Arc::clone(&chan);
        let n = case.max_streams as usize;
        let created = std::panic::catch_unwind(std::panic::AssertUnwindSafe(move || { let v: Vec<Box<dyn StreamH>> = (0..n).map(|_| chan2.create_stream()).collect(); v }));
        match created {
            Ok(v) => { run.recreate = Some((true, chan.running())); drop(v); },
            Err(_) => { run.recreate = Some((false, chan.running())); },
        }
    }
    drop(streams);
    let l = std::mem::take(&mut *log.lock().unwrap());
    run.sends = l.sends; run.polls = l.polls; run.releases = l.releases; run.lens = l.lens; run.cancels = l.cancels; run.ends = l.ends; run.consumers = l.consumers; run.cur_ops = l.cur_ops;
    if let Err(end) = crate::sched::guarded(20_000, move || { let c = LeakOnUnwind::new(chan); drop(c.take()); }) {
        run.end = match end { EndState::Stall { .. } => EndState::Stall { stuck: vec![(n_prod + n_cons, 0)], parked: vec![] }, other => other };
        run.cur_ops.push("drop of the channel (teardown)".into());
    }
    payload::set_current_ledger(None);
    run.ledger = ledger.all();
    run.ledger_corrupt = ledger.corrupt();
    run
}

/// Drives a future of the library to completion on the calling (logical) thread: a current-thread tokio runtime with the clock paused,
/// so the library's `sleep(1 ms)` retry loops cost no time -- every atomic operation inside stays a scheduling point of this thread
fn block_on_paused<T>(fut: impl Future<Output = T>) -> T {
    let rt = tokio::runtime::Builder::new_current_thread().enable_time().start_paused(true).build().expect("tokio runtime");
    rt.block_on(fut)
}

fn one_send(ctx: &ThreadCtx, chan: &dyn Chan, entry: Entry, v: u64) -> SendRes {
    match entry {
        Entry::Send => chan.send(v),
        Entry::SendWith => chan.send_with(v),
        Entry::Derived => SendRes { accepted: chan.send_derived(v), contract_ok: true },
        Entry::SendAsync(k) => {
            let gate = Arc::new(Gate::default());
            gate.remaining.store(k as u32, Relaxed);
            let mut fut = chan.send_async(v, gate);
            let waker = noop_waker();
            let mut cx = Context::from_waker(&waker);
            loop {
                match fut.as_mut().poll(&mut cx) {
                    Poll::Ready(r) => break r,
                    Poll::Pending => ctx.point("async.suspended"),
                }
            }
        },
        Entry::Reserved => {
            match chan.reserve() {
                None => SendRes { accepted: false, contract_ok: true },
                Some(slot) => {
                    ctx.point("reserved.before_fill");
                    chan.fill(slot, v);
                    ctx.point("reserved.before_send");
                    while !chan.send_reserved(slot) {
                        // somebody else's earlier reservation must be published first
                        ctx.backoff();
                    }
                    SendRes { accepted: true, contract_ok: true }
                },
            }
        },
    }
}

fn producer_body(ctx: &ThreadCtx, pi: usize, script: &[POp], chan: &dyn Chan, log: &Arc<Mutex<Log>>, finish_async: bool) {
    let mut seq = 0u32;
    let mut reservations: Vec<(usize, usize)> = vec![];      // (slot, index into log.sends)
    let mut asyncs: Vec<PendingAsync> = vec![];
    let t = pi as u8;
    let mut next_val = |seq: &mut u32| { *seq += 1; payload::plain(t, *seq) };
    let push_send = |rec: SendRec| -> usize { let mut g = log.lock().unwrap(); g.sends.push(rec); g.sends.len() - 1 };
    let poll_async = |ctx: &ThreadCtx, a: &mut PendingAsync| -> bool {
        let waker = noop_waker();
        let mut cx = Context::from_waker(&waker);
        let r = ctx.op(|| a.fut.as_mut().poll(&mut cx));
        match r {
            Poll::Ready(res) => {
                let ret = ctx.tick();
                let steps = ctx.solo_steps().saturating_sub(a.step0);
                let mut g = log.lock().unwrap();
                let rec = &mut g.sends[a.idx];
                rec.ret = ret; rec.accepted = res.accepted; rec.contract_ok = res.contract_ok; rec.unfinished = false; rec.own_steps = steps;
                true
            },
            Poll::Pending => false,
        }
    };
    for op in script {
        log.lock().unwrap().cur_ops[pi] = match *op {
            POp::Send(e) | POp::SendRetry(e) => crate::props::uni::entry_name(e).to_string(),
            POp::Reserve => "reserve_slot".into(), POp::SendOldestReserved => "send_reserved".into(), POp::CancelNewestReserved => "cancel_reserved".into(),
            POp::AsyncBegin(_) => "send_with_async".into(), POp::AsyncPoll => "send_with_async".into(), POp::Len => "pending_items_count".into(),
            POp::CancelAll => "cancel_all_streams".into(), POp::Pause(_) => "pause".into(),
            POp::EndAll => "gracefully_end_all_streams".into(), POp::EndStream(_) => "gracefully_end_stream".into(),
        };
        match *op {
            POp::Send(entry) | POp::SendRetry(entry) => {
                let retry = matches!(op, POp::SendRetry(_));
                let v = next_val(&mut seq);
                let mut tries = 0;
                loop {
                    tries += 1;
                    ctx.point("send.call");
                    let call = ctx.tick();
                    let step0 = ctx.solo_steps();
                    let res = ctx.op(|| one_send(ctx, chan, entry, v));
                    let own_steps = ctx.solo_steps().saturating_sub(step0);
                    let ret = ctx.tick();
                    push_send(SendRec { thread: t, entry, val: v, call, ret, accepted: res.accepted, contract_ok: res.contract_ok, unfinished: false, own_steps, cancelled: false });
                    if res.accepted || !retry || tries >= 4 { break; }
                    if !ctx.backoff() { break; }
                }
            },
            POp::Reserve => {
                ctx.point("reserve.call");
                let v = next_val(&mut seq);
                let call = ctx.tick();
                let slot = ctx.op(|| chan.reserve());
                let ret = ctx.tick();
                match slot {
                    Some(slot) => {
                        // completed later by SendOldestReserved / CancelNewestReserved (or by the end-of-script completion phase)
                        let idx = push_send(SendRec { thread: t, entry: Entry::Reserved, val: v, call, ret: u64::MAX, accepted: false, contract_ok: true, unfinished: true, own_steps: 0, cancelled: false });
                        reservations.push((slot, idx));
                    },
                    None => { push_send(SendRec { thread: t, entry: Entry::Reserved, val: v, call, ret, accepted: false, contract_ok: true, unfinished: false, own_steps: 0, cancelled: false }); },
                }
            },
            POp::SendOldestReserved => {
                if !reservations.is_empty() {
                    let (slot, idx) = reservations.remove(0);
                    send_reserved(ctx, chan, log, slot, idx);
                }
            },
            POp::CancelNewestReserved => {
                if let Some((slot, idx)) = reservations.pop() {
                    cancel_reserved(ctx, chan, log, slot, idx);
                }
            },
            POp::AsyncBegin(k) => {
                ctx.point("async.call");
                let v = next_val(&mut seq);
                let gate = Arc::new(Gate::default());
                gate.remaining.store(k as u32, Relaxed);
                let call = ctx.tick();
                let step0 = ctx.solo_steps();
                let idx = push_send(SendRec { thread: t, entry: Entry::SendAsync(k), val: v, call, ret: u64::MAX, accepted: false, contract_ok: true, unfinished: true, own_steps: 0, cancelled: false });
                let mut a = PendingAsync { fut: chan.send_async(v, gate), idx, step0 };
                if !poll_async(ctx, &mut a) { asyncs.push(a); }
            },
            POp::AsyncPoll => {
                if !asyncs.is_empty() {
                    ctx.point("async.resume");
                    let mut a = asyncs.remove(0);
                    if !poll_async(ctx, &mut a) { asyncs.insert(0, a); }
                }
            },
            POp::Len => {
                ctx.point("len.call");
                let call = ctx.tick();
                let len = ctx.op(|| chan.pending());
                let ret = ctx.tick();
                log.lock().unwrap().lens.push(LenRec { thread: t, call, ret, len });
            },
            POp::CancelAll => {
                ctx.point("cancel.call");
                let call = ctx.tick();
                ctx.op(|| chan.cancel_all());
                let ret = ctx.tick();
                log.lock().unwrap().cancels.push(CancelRec { thread: t, call, ret });
            },
            POp::Pause(n) => { for _ in 0..n { ctx.point("pause"); } },
            POp::EndAll => {
                ctx.point("end_all.call");
                let call = ctx.tick();
                let left = ctx.op(|| block_on_paused(chan.end_all(std::time::Duration::ZERO)));
                let ret = ctx.tick();
                log.lock().unwrap().ends.push(EndRec { thread: t, call, ret, target: None, answer: left });
            },
            POp::EndStream(ci) => {
                let id = log.lock().unwrap().consumers.get(ci as usize).and_then(|c| c.stream_id);
                if let Some(id) = id {
                    ctx.point("end_stream.call");
                    let call = ctx.tick();
                    let ok = ctx.op(|| block_on_paused(chan.end_stream(id, std::time::Duration::ZERO)));
                    let ret = ctx.tick();
                    log.lock().unwrap().ends.push(EndRec { thread: t, call, ret, target: Some(ci), answer: ok as u32 });
                }
            },
        }
    }
    log.lock().unwrap().cur_ops[pi] = if reservations.is_empty() { "send_with_async".into() } else { "send_reserved".into() };
    // completion phase: reservations are sent oldest-first; async sends are driven to completion (or abandoned)
    while !reservations.is_empty() {
        let (slot, idx) = reservations.remove(0);
        send_reserved(ctx, chan, log, slot, idx);
    }
    if finish_async {
        while !asyncs.is_empty() {
            let mut a = asyncs.remove(0);
            let mut guard = 0;
            while !poll_async(ctx, &mut a) {
                guard += 1;
                if guard > 300 { break; }
                ctx.point("async.resume");
            }
        }
    } else {
        // left suspended for ever: the futures are dropped only after the run (here, at the end of the thread)
        std::mem::forget(asyncs);
    }
}

fn send_reserved(ctx: &ThreadCtx, chan: &dyn Chan, log: &Arc<Mutex<Log>>, slot: usize, idx: usize) {
    ctx.point("reserved.fill");
    let v = log.lock().unwrap().sends[idx].val;
    chan.fill(slot, v);
    ctx.point("reserved.send");
    let step0 = ctx.solo_steps();
    ctx.op(|| { while !chan.send_reserved(slot) { ctx.backoff(); } });
    let ret = ctx.tick();
    let mut g = log.lock().unwrap();
    let rec = &mut g.sends[idx];
    rec.ret = ret; rec.accepted = true; rec.unfinished = false; rec.own_steps = ctx.solo_steps().saturating_sub(step0);
}

fn cancel_reserved(ctx: &ThreadCtx, chan: &dyn Chan, log: &Arc<Mutex<Log>>, slot: usize, idx: usize) {
    ctx.point("reserved.cancel");
    let step0 = ctx.solo_steps();
    ctx.op(|| { while !chan.cancel_reserved(slot) { ctx.backoff(); } });
    let ret = ctx.tick();
    let mut g = log.lock().unwrap();
    let rec = &mut g.sends[idx];
    rec.ret = ret; rec.accepted = false; rec.cancelled = true; rec.unfinished = false; rec.own_steps = ctx.solo_steps().saturating_sub(step0);
}

fn consumer_body(ctx: &ThreadCtx, ci: usize, tid: usize, cons: &Consumer, chan: &dyn Chan, log: &Arc<Mutex<Log>>, streams: &Arc<Mutex<Vec<Option<Box<dyn StreamH>>>>>) {
    let mut stream: LeakOnUnwind<Box<dyn StreamH>> = LeakOnUnwind::new(if cons.create_late {
        ctx.point("create.call");
        let call = ctx.tick();
        let s = ctx.op(|| chan.create_stream());
        let ret = ctx.tick();
        let mut g = log.lock().unwrap();
        g.consumers[ci].stream_id = Some(s.id());
        g.consumers[ci].created_at = Some((call, ret));
        s
    } else {
        streams.lock().unwrap()[ci].take().expect("stream created up front")
    });
    let mut waker = ctx.new_waker();
    let mut polls = 0u32;
    let mut yielded = 0u32;
    if cons.max_items == Some(0) { streams.lock().unwrap()[ci] = Some(stream.take()); return; }
    loop {
        if cons.fresh_waker_at.iter().any(|&p| p as u32 == polls) { waker = ctx.new_waker(); }
        ctx.point("poll.call");
        log.lock().unwrap().cur_ops[tid] = "poll".into();
        let call = ctx.tick();
        let r = ctx.op(|| stream.poll(&waker));
        let ret = ctx.tick();
        polls += 1;
        match r {
            Poll::Ready(Some(item)) => {
                let (val, intact, addr) = (item.val(), item.intact(), item.addr());
                log.lock().unwrap().polls.push(PollRec { thread: tid as u8, consumer: ci as u8, stream: stream.id(), call, ret, res: PollRes::Item { val, intact, addr }, drain: false, resub: false });
                log.lock().unwrap().cur_ops[tid] = "holding-item".into();
                yielded += 1;
                let mut item = item;
                if cons.into_shared { item = match item.into_shared() { Ok(s) => s, Err(same) => same }; }
                let clone = if cons.clone_handle { item.try_clone().map(LeakOnUnwind::new) } else { None };
                let item = LeakOnUnwind::new(item);
                for _ in 0..cons.hold { ctx.point("hold"); }
                let intact_before = item.intact() && item.val() == val;
                let mut c = ctx.tick();
                ctx.op(|| drop(item));
                let mut r = ctx.tick();
                if let Some(clone) = clone {
                    ctx.point("hold.clone");
                    let ok = clone.intact() && clone.val() == val;
                    c = ctx.tick();     // (the release interval is that of the *last* handle)
                    ctx.op(|| drop(clone));
                    r = ctx.tick();
                    if !ok { log.lock().unwrap().releases.push(RelRec { val, consumer: ci as u8, call: c, ret: r, intact_before: false }); continue; }
                }
                log.lock().unwrap().releases.push(RelRec { val, consumer: ci as u8, call: c, ret: r, intact_before });
                if cons.max_items == Some(yielded as u8) { break; }
                if cons.stop_after == Some(yielded as u8) {
                    ctx.point("drop_stream.call");
                    let call = ctx.tick();
                    ctx.op(|| drop(stream));
                    let ret = ctx.tick();
                    log.lock().unwrap().consumers[ci].dropped_at = Some((call, ret));
                    log.lock().unwrap().consumers[ci].polls = polls;
                    return;
                }
            },
            Poll::Ready(None) => {
                let mut g = log.lock().unwrap();
                g.polls.push(PollRec { thread: tid as u8, consumer: ci as u8, stream: stream.id(), call, ret, res: PollRes::End, drain: false, resub: false });
                g.consumers[ci].ended = true;
                if cons.drop_on_end {
                    g.consumers[ci].polls = polls;
                    drop(g);
                    ctx.point("drop_stream.call");
                    let call = ctx.tick();
                    ctx.op(|| drop(stream));
                    let ret = ctx.tick();
                    log.lock().unwrap().consumers[ci].dropped_at = Some((call, ret));
                    if let Some(n) = cons.resubscribe {
                        ctx.point("resubscribe.call");
                        let c0 = ctx.tick();
                        let mut again: LeakOnUnwind<Box<dyn StreamH>> = LeakOnUnwind::new(ctx.op(|| chan.create_stream()));
                        log.lock().unwrap().consumers[ci].resub_at = Some((c0, ctx.tick()));
                        let waker = ctx.new_waker();
                        for _ in 0..n {
                            ctx.point("poll.call");
                            log.lock().unwrap().cur_ops[tid] = "poll".into();
                            let call = ctx.tick();
                            let r = ctx.op(|| again.poll(&waker));
                            let ret = ctx.tick();
                            let (res, item) = match r {
                                Poll::Ready(Some(item)) => (PollRes::Item { val: item.val(), intact: item.intact(), addr: item.addr() }, Some(item)),
                                Poll::Ready(None) => (PollRes::End, None),
                                Poll::Pending => (PollRes::Pending, None),
                            };
                            log.lock().unwrap().polls.push(PollRec { thread: tid as u8, consumer: ci as u8, stream: again.id(), call, ret, res, drain: false, resub: true });
                            if let Some(item) = item { let item = LeakOnUnwind::new(item); ctx.op(|| drop(item)); }
                            match res {
                                PollRes::End => break,
                                PollRes::Pending => if ctx.park() == ParkResult::Quiescent { break },
                                _ => {},
                            }
                        }
                        ctx.point("drop_stream.call");
                        let d0 = ctx.tick();
                        ctx.op(|| drop(again));
                        log.lock().unwrap().consumers[ci].resub_dropped_at = Some((d0, ctx.tick()));
                    }
                    return;
                }
                break;
            },
            Poll::Pending => {
                log.lock().unwrap().polls.push(PollRec { thread: tid as u8, consumer: ci as u8, stream: stream.id(), call, ret, res: PollRes::Pending, drain: false, resub: false });
                match ctx.park() {
                    ParkResult::Woken => {},
                    ParkResult::Quiescent => { log.lock().unwrap().consumers[ci].parked_at_quiescence = true; break; },
                }
            },
        }
        if polls > 400 { break; }
    }
    log.lock().unwrap().consumers[ci].polls = polls;
    // handed back: the epilogue drains it and drops it before the channel
    streams.lock().unwrap()[ci] = Some(stream.take());
}

// ---------------------------------------------------------------------------------------------------------------------
// generation

pub fn entry_strategy(kind: ChanKind) -> BoxedStrategy<Entry> {
    let entries = kind.entries();
    (any::<u16>()).prop_map(move |i| pick(&entries, i)).boxed()
}

pub fn sparse_or_any_schedule(threads: usize, est_len: u32) -> BoxedStrategy<Schedule> {
    crate::props::containers::schedule_strategy(threads, est_len)
}

/// picks (kind, buffer, max_streams) from the menus, monotonically in the index (shrinks towards the first entries)
pub fn config_strategy(kinds: &'static [ChanKind], max_streams_allowed: &'static [u8], buffers_allowed: &'static [u8]) -> BoxedStrategy<(ChanKind, u8, u8)> {
    (any::<u16>(), any::<u16>()).prop_map(move |(ki, ci)| {
        let kind = pick(kinds, ki);
        let cfgs: Vec<(u8, u8)> = chan::CONFIGS.iter().copied()
            .filter(|(b, m)| buffers_allowed.contains(b) && max_streams_allowed.contains(m))
            .filter(|(_, m)| !(kind == ChanKind::MultiMmap && false) || *m > 0)
            .collect();
        let (b, m) = pick(&cfgs, ci);
        (kind, b, m)
    }).boxed()
}

pub fn origin_strategy() -> BoxedStrategy<u32> {
    prop_oneof![3 => Just(0u32), 2 => (0u32..40).prop_map(|d| u32::MAX - d)].boxed()
}

pub fn fingerprint(case: &ChanCase, run: &ChanRun) -> u64 {
    use std::hash::{Hash, Hasher};
    let mut h = std::collections::hash_map::DefaultHasher::new();
    format!("{:?}{}{}{}{:?}{:?}{}", case.kind, case.buffer, case.max_streams, case.prefill, case.producers, case.consumers, case.finish_async).hash(&mut h);
    run.trace.hash(&mut h);
    h.finish()
}

pub fn base_classes(case: &ChanCase) -> Vec<String> {
    let mut c = vec![format!("kind:{}", case.kind.short()), format!("buffer:{}", case.buffer), format!("max_streams:{}", case.max_streams),
                     format!("producers:{}", case.producers.len()), format!("consumers:{}", case.consumers.len())];
    if case.origin != 0 { c.push("origin-near-wrap".into()); }
    for p in &case.producers { for op in p { if let POp::Send(e) | POp::SendRetry(e) = op { c.push(format!("entry:{}", show_entry(*e).split('/').next().unwrap())); } } }
    c.sort(); c.dedup();
    c
}
