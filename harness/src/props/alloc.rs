//! C13 (bounded pool allocator), C14 (OgreArc / OgreUnique handles) and C19 (incremental-average metric) under the controlled scheduler.

use crate::driver::{pick, Property, RunReport, Tier, Verdict};
use crate::lin::{self, Occupancy};
use crate::payload::{self, Ledger, Tracked};
use crate::props::containers::schedule_strategy;
use crate::sched::{EndState, Sched, Schedule, ThreadCtx};
use proptest::collection::vec;
use proptest::prelude::*;
use reactive_mutiny::prelude::advanced::*;
use serde::{Deserialize, Serialize};
use std::collections::{BTreeMap, BTreeSet, HashMap};
use std::sync::{Arc, Mutex};

// ---------------------------------------------------------------------------------------------------------------------
// type erasure over the allocator menu

pub trait Pool: Send + Sync {
    fn size(&self) -> usize;
    fn alloc(&self) -> Option<(usize, u32)>;
    fn alloc_with(&self, v: u64) -> Option<(usize, u32)>;
    fn dealloc_ref(&self, addr: usize);
    fn dealloc_id(&self, id: u32);
    fn id_from_ref(&self, addr: usize) -> u32;
    fn ref_from_id(&self, id: u32) -> usize;
}

struct PoolAd<A, const N: usize>(A);
impl<A: BoundedOgreAllocator<Tracked> + Send + Sync, const N: usize> Pool for PoolAd<A, N> {
    fn size(&self) -> usize { N }
    fn alloc(&self) -> Option<(usize, u32)> { self.0.alloc_ref().map(|(r, id)| (r as *mut Tracked as usize, id)) }
    fn alloc_with(&self, v: u64) -> Option<(usize, u32)> { self.0.alloc_with(|slot| unsafe { std::ptr::write(slot, Tracked::new(v)) }).map(|(r, id)| (r as *mut Tracked as usize, id)) }
    fn dealloc_ref(&self, addr: usize) { self.0.dealloc_ref(unsafe { &*(addr as *const Tracked) }) }
    fn dealloc_id(&self, id: u32) { self.0.dealloc_id(id) }
    fn id_from_ref(&self, addr: usize) -> u32 { self.0.id_from_ref(unsafe { &*(addr as *const Tracked) }) }
    fn ref_from_id(&self, id: u32) -> usize { self.0.ref_from_id(id) as *mut Tracked as usize }
}

#[derive(Clone, Copy, Debug, PartialEq, Eq, Serialize, Deserialize)]
pub enum FreeList { Atomic, FullSync }

pub fn make_pool(fl: FreeList, size: u8, origin: u32) -> Arc<dyn Pool> {
    reactive_mutiny::verif::set_sequence_origin(origin);
    macro_rules! mk { ($t:ident, $n:expr) => { Arc::new(PoolAd::<$t<Tracked, $n>, $n>(<$t<Tracked, $n> as BoundedOgreAllocator<Tracked>>::new())) as Arc<dyn Pool> } }
    let p = match (fl, size) {
        (FreeList::Atomic, 2) => mk!(AllocatorAtomicArray, 2), (FreeList::Atomic, 4) => mk!(AllocatorAtomicArray, 4), (FreeList::Atomic, 8) => mk!(AllocatorAtomicArray, 8),
        (FreeList::FullSync, 2) => mk!(AllocatorFullSyncArray, 2), (FreeList::FullSync, 4) => mk!(AllocatorFullSyncArray, 4), (FreeList::FullSync, 8) => mk!(AllocatorFullSyncArray, 8),
        other => panic!("unsupported pool {:?}", other),
    };
    reactive_mutiny::verif::set_sequence_origin(0);
    p
}

// ---------------------------------------------------------------------------------------------------------------------
// C13

#[derive(Clone, Copy, Debug, PartialEq, Eq, Serialize, Deserialize)]
pub enum AOp {
    Alloc,
    AllocWith,
    /// deallocate (by reference) the n-th slot this thread owns (oldest first; index mapped monotonically)
    DeallocRef(u8),
    DeallocId(u8),
    /// id <-> reference round trip on an owned slot
    Check(u8),
}

#[derive(Clone, Debug, Serialize, Deserialize)]
pub struct PoolCase {
    pub free_list: FreeList,
    pub size:      u8,
    pub origin:    u32,
    /// slots allocated (by thread 0's account) before the threads start
    pub prefill:   u8,
    pub threads:   Vec<Vec<AOp>>,
    pub schedule:  Schedule,
}

#[derive(Clone, Debug)]
enum ARes { Got { id: u32, addr: usize, val: u64 }, Failed, Freed { id: u32, val: u64, intact: bool }, Checked { ok: bool, id: u32 } }

#[derive(Clone, Debug)]
struct ARec { thread: u8, call: u64, ret: u64, res: ARes }

pub struct C13Pool;

impl C13Pool {
    fn strategy_impl() -> BoxedStrategy<PoolCase> {
        (any::<bool>(), any::<u16>(), prop_oneof![3 => Just(0u32), 2 => (0u32..24).prop_map(|d| u32::MAX - d)])
            .prop_flat_map(|(fs, si, origin)| {
                let size = pick(&[2u8, 2, 4, 8], si);
                let op = prop_oneof![4 => Just(AOp::Alloc), 2 => Just(AOp::AllocWith), 3 => (0u8..4).prop_map(AOp::DeallocRef), 3 => (0u8..4).prop_map(AOp::DeallocId), 1 => (0u8..4).prop_map(AOp::Check)];
                let threads = vec(vec(op, 1..=5), 2..=4);
                let prefill = prop_oneof![2 => Just(0u8), 1 => Just(size - 1), 2 => Just(size), 1 => 0..=size];
                (Just(if fs { FreeList::FullSync } else { FreeList::Atomic }), Just(size), Just(origin), prefill, threads)
            })
            .prop_flat_map(|(free_list, size, origin, prefill, threads)| {
                let n = threads.len();
                let est = threads.iter().map(|t| t.len() as u32 * 10).sum::<u32>() + 8;
                (Just((free_list, size, origin, prefill)), Just(threads), schedule_strategy(n, est))
            })
            .prop_map(|((free_list, size, origin, prefill), threads, schedule)| PoolCase { free_list, size, origin, prefill, threads, schedule })
            .boxed()
    }
}

impl Property for C13Pool {
    type Case = PoolCase;
    fn part(&self) -> &'static str { "pool-sched" }
    fn strategy(&self, _tier: Tier) -> BoxedStrategy<PoolCase> { Self::strategy_impl() }
    fn cases(&self, tier: Tier) -> u32 { match tier { Tier::Quick => 40_000, Tier::Thorough => 400_000 } }
    fn rule(&self) -> String {
        "generated: free list (AtomicMove | FullSyncMove) x POOL_SIZE {2,4,8} x free-list counter origin {0, just below 2^32} x 0..POOL_SIZE slots allocated beforehand (shared out among the threads) x 2..4 threads of 1..5 ops over {alloc_ref, alloc_with, dealloc_ref / dealloc_id of a slot the thread owns, id<->ref round trip} x schedule; payload with a destructor reporting to a ledger; \
         oracle: no double allocation (an alloc returning a slot that was owned during its whole call), a slot's payload is intact when its owner frees it, id<->reference is a bijection onto POOL_SIZE slots size_of::<T>() apart, never more than POOL_SIZE outstanding, an alloc fails only if POOL_SIZE slots could have been outstanding at some instant of the call (outstanding = from the call of the alloc until the return of the dealloc), destructors ran exactly once per freed slot; afterwards (everything freed) exactly POOL_SIZE allocations succeed; \
         non-trivial: an alloc overlapped a dealloc (a thread was switched out inside an operation) or an alloc failed".into()
    }
    fn schedule_mut<'a>(&self, case: &'a mut PoolCase) -> Option<&'a mut Schedule> { Some(&mut case.schedule) }
    fn run(&self, case: &PoolCase) -> RunReport {
        let ledger = Ledger::new();
        payload::set_current_ledger(Some(Arc::clone(&ledger)));
        let pool = make_pool(case.free_list, case.size, case.origin);
        let n = case.threads.len();
        let size = case.size as usize;
        let k = format!("{:?}/{}", case.free_list, case.size);
        // prefill: slots handed round-robin to the threads
        let mut owned0: Vec<Vec<(u32, usize, u64)>> = vec![vec![]; n];
        let mut pre: Vec<(u32, usize, u64)> = vec![];
        for i in 0..case.prefill.min(case.size) {
            let v = payload::plain(200, i as u32 + 1);
            match pool.alloc_with(v) {
                Some((addr, id)) => { owned0[i as usize % n].push((id, addr, v)); pre.push((id, addr, v)); },
                None => {
                    payload::set_current_ledger(None);
                    std::mem::forget(pool);
                    return RunReport { verdict: Verdict::Violation { signature: format!("{k}/spurious-exhaustion"), detail: format!("a fresh pool of {size} slots failed allocation #{}", i + 1) }, nontrivial: false, classes: vec![], fingerprint: 0, trace: None, summary: String::new() };
                },
            }
        }
        let log: Arc<Mutex<Vec<ARec>>> = Arc::new(Mutex::new(vec![]));
        let left: Arc<Mutex<Vec<(u32, usize, u64)>>> = Arc::new(Mutex::new(vec![]));
        let sched = Sched::new(n, case.schedule.clone(), 20_000);
        let bodies: Vec<Box<dyn FnOnce(&ThreadCtx) + Send>> = case.threads.iter().enumerate().map(|(t, script)| {
            let script = script.clone();
            let pool = Arc::clone(&pool);
            let log = Arc::clone(&log);
            let left = Arc::clone(&left);
            let ledger = Arc::clone(&ledger);
            let mut owned = owned0[t].clone();
            Box::new(move |ctx: &ThreadCtx| {
                payload::set_current_ledger(Some(ledger));
                let mut seq = 0u32;
                for op in script {
                    ctx.point("op.call");
                    let call = ctx.tick();
                    let res = ctx.op(|| match op {
                        AOp::Alloc | AOp::AllocWith => {
                            seq += 1;
                            let v = payload::plain(t as u8, seq);
                            let got = if op == AOp::Alloc {
                                pool.alloc().map(|(addr, id)| { ctx.point("harness.fill"); unsafe { std::ptr::write(addr as *mut Tracked, Tracked::new(v)) }; (addr, id) })
                            } else { pool.alloc_with(v) };
                            match got { Some((addr, id)) => { owned.push((id, addr, v)); ARes::Got { id, addr, val: v } }, None => ARes::Failed }
                        },
                        AOp::DeallocRef(i) | AOp::DeallocId(i) => {
                            if owned.is_empty() { return ARes::Checked { ok: true, id: u32::MAX }; }
                            let idx = (i as usize * owned.len()) / 4;
                            let (id, addr, v) = owned.remove(idx.min(owned.len() - 1));
                            let slot = unsafe { &*(addr as *const Tracked) };
                            let intact = slot.val == v && slot.intact();
                            if matches!(op, AOp::DeallocRef(_)) { pool.dealloc_ref(addr) } else { pool.dealloc_id(id) }
                            ARes::Freed { id, val: v, intact }
                        },
                        AOp::Check(i) => {
                            if owned.is_empty() { return ARes::Checked { ok: true, id: u32::MAX }; }
                            let (id, addr, _) = owned[(i as usize * owned.len()) / 4];
                            ARes::Checked { ok: pool.id_from_ref(addr) == id && pool.ref_from_id(id) == addr, id }
                        },
                    });
                    let ret = ctx.tick();
                    log.lock().unwrap().push(ARec { thread: t as u8, call, ret, res });
                }
                left.lock().unwrap().extend(owned);
            }) as Box<dyn FnOnce(&ThreadCtx) + Send>
        }).collect();
        let out = sched.execute(bodies);
        let recs = log.lock().unwrap().clone();
        let summary = recs.iter().map(|r| format!("T{}[{}..{}]{}", r.thread, r.call, r.ret, match &r.res {
            ARes::Got { id, val, .. } => format!("alloc=#{id}({})", payload::show(*val)), ARes::Failed => "alloc=EXHAUSTED".into(),
            ARes::Freed { id, .. } => format!("dealloc(#{id})"), ARes::Checked { ok, id } => format!("check(#{id})={ok}") })).collect::<Vec<_>>().join(" ");
        let mut classes = vec![format!("free-list:{:?}", case.free_list), format!("pool:{}", case.size)];
        if case.origin != 0 { classes.push("origin-near-wrap".into()); }
        let fp = { use std::hash::{Hash, Hasher}; let mut h = std::collections::hash_map::DefaultHasher::new(); format!("{:?}", (case.free_list, case.size, case.prefill, &case.threads)).hash(&mut h); out.trace.hash(&mut h); h.finish() };
        let viol = |sig: String, detail: String, classes: Vec<String>| RunReport { verdict: Verdict::Violation { signature: sig, detail }, nontrivial: true, classes, fingerprint: fp, trace: Some(out.trace.clone()), summary: summary.clone() };
        match &out.end {
            EndState::Completed => {},
            EndState::Blocked { .. } => { std::mem::forget(pool); payload::set_current_ledger(None); return RunReport { verdict: Verdict::Inconclusive("blocked-in-uninstrumented-wait".into()), nontrivial: false, classes, fingerprint: fp, trace: Some(out.trace), summary }; },
            EndState::Budget => { std::mem::forget(pool); payload::set_current_ledger(None); return RunReport { verdict: Verdict::Inconclusive("step-budget".into()), nontrivial: false, classes, fingerprint: fp, trace: Some(out.trace), summary }; },
            EndState::Stall { stuck, .. } => { std::mem::forget(pool); payload::set_current_ledger(None); return viol(format!("{k}/stall"), format!("threads {:?} spin for ever; history: {summary}", stuck), classes); },
            EndState::Panicked { tid, msg } => { std::mem::forget(pool); payload::set_current_ledger(None); return viol(format!("{k}/panic"), format!("thread {tid} panicked: {msg}; history: {summary}"), classes); },
        }
        let exhausted = recs.iter().any(|r| matches!(r.res, ARes::Failed));
        if exhausted { classes.push("exhaustion-hit".into()); }
        if out.switches_inside_ops > 0 { classes.push("overlap".into()); }
        let nontrivial = out.switches_inside_ops > 0 || exhausted;
        // --- oracle
        let base = pool.ref_from_id(0);
        let tsize = std::mem::size_of::<Tracked>();
        // ownership intervals per id: (owned_from = alloc.ret [0 for prefill], alloc.call, freed_call, freed_ret, owner thread)
        let mut own: HashMap<u32, Vec<(u64, u64, u64, u64)>> = HashMap::new();
        let mut judged: Option<(String, String)> = None;
        // first pass: pair every allocation with the deallocation its owner issued later (a slot is only freed by the thread that owns it)
        let freed_after = |thread: u8, id: u32, after: u64| -> (u64, u64) {
            recs.iter().filter(|r| r.thread == thread && r.call > after).filter_map(|r| if let ARes::Freed { id: fid, .. } = r.res { if fid == id { Some((r.call, r.ret)) } else { None } } else { None }).min().unwrap_or((u64::MAX, u64::MAX))
        };
        for (t, slots) in owned0.iter().enumerate() { for (id, _, _) in slots { let (fc, fr) = freed_after(t as u8, *id, 0); own.entry(*id).or_default().push((0, 0, fc, fr)); } }
        for r in &recs { if let ARes::Got { id, .. } = r.res { let (fc, fr) = freed_after(r.thread, id, r.ret); own.entry(id).or_default().push((r.ret, r.call, fc, fr)); } }
        for r in &recs {
            match &r.res {
                ARes::Got { id, addr, .. } => {
                    if *id as usize >= size || *addr != base + *id as usize * tsize {
                        judged = Some((format!("{k}/bad-slot"), format!("alloc returned id {id} / address {addr:#x}: not slot #{id} of a pool of {size} slots {tsize} bytes apart starting at {base:#x}; history: {summary}")));
                        break;
                    }
                    // double allocation: the slot was owned by somebody else during the whole call
                    if own.get(id).map(|v| v.iter().any(|(from, call, fc, _)| !(*from == r.ret && *call == r.call) && *from < r.call && *fc > r.ret)).unwrap_or(false) {
                        judged = Some((format!("{k}/double-allocation"), format!("T{} was handed slot #{id} over [{},{}] although another owner held it during that whole interval; history: {summary}", r.thread, r.call, r.ret)));
                        break;
                    }
                },
                ARes::Freed { id, intact, val } => {
                    if !intact {
                        judged = Some((format!("{k}/payload-overwritten-while-owned"), format!("T{} found the payload {} of its slot #{id} changed when freeing it; history: {summary}", r.thread, payload::show(*val))));
                        break;
                    }
                },
                ARes::Checked { ok, id } => {
                    if !ok { judged = Some((format!("{k}/id-ref-roundtrip"), format!("id_from_ref / ref_from_id do not round-trip for slot #{id}; history: {summary}"))); break; }
                },
                ARes::Failed => {},
            }
        }
        if judged.is_none() {
            // exhaustion rule (5.3) and the POOL_SIZE bound
            let occ_all: Vec<(usize, Occupancy)> = {
                let mut v = vec![];
                for (_, ivs) in &own { for (_, call, _, fret) in ivs { v.push((0usize, Occupancy { from: *call, to: *fret })); } }
                v
            };
            for r in recs.iter().filter(|r| matches!(r.res, ARes::Failed)) {
                let occ: Vec<Occupancy> = occ_all.iter().map(|(_, o)| *o).collect();
                if !lin::reject_legit(r.call, r.ret, &occ, size) {
                    judged = Some((format!("{k}/spurious-exhaustion"), format!("T{} was refused an allocation over [{},{}] although fewer than {size} slots could have been outstanding; history: {summary}", r.thread, r.call, r.ret)));
                    break;
                }
            }
            let mut ev: Vec<(u64, i32)> = vec![];
            for (_, ivs) in &own { for (from, _, fc, _) in ivs { ev.push((*from, 1)); if *fc != u64::MAX { ev.push((*fc, -1)); } } }
            ev.sort();
            let mut outst = 0;
            for (at, d) in ev { outst += d; if outst > size as i32 && judged.is_none() { judged = Some((format!("{k}/over-capacity"), format!("{outst} slots outstanding at instant {at} in a pool of {size}; history: {summary}"))); } }
        }
        // everything back: destructors exactly once, exactly POOL_SIZE allocations succeed
        let leftovers = left.lock().unwrap().clone();
        if judged.is_none() {
            for (id, addr, v) in &leftovers {
                let slot = unsafe { &*(*addr as *const Tracked) };
                if slot.val != *v || !slot.intact() { judged = Some((format!("{k}/payload-overwritten-while-owned"), format!("the payload {} of the still-owned slot #{id} was changed; history: {summary}", payload::show(*v)))); break; }
            }
        }
        for (id, _, _) in &leftovers { pool.dealloc_id(*id); }
        if judged.is_none() {
            if ledger.corrupt() > 0 { judged = Some((format!("{k}/destructor-on-garbage"), format!("{} destructor run(s) on something that is not an intact payload; history: {summary}", ledger.corrupt()))); }
            let drops: BTreeMap<u64, u32> = ledger.all().into_iter().collect();
            let mut all_vals: BTreeSet<u64> = pre.iter().map(|p| p.2).collect();
            for r in &recs { if let ARes::Got { val, .. } = r.res { all_vals.insert(val); } }
            for v in &all_vals {
                let n = drops.get(v).copied().unwrap_or(0);
                if n != 1 && judged.is_none() { judged = Some((format!("{k}/destructor-count"), format!("the payload {} was destroyed {n} times after its slot was freed exactly once; history: {summary}", payload::show(*v)))); }
            }
        }
        if judged.is_none() {
            let mut got = vec![];
            for _ in 0..size + 1 { if let Some((addr, id)) = pool.alloc() { got.push((addr, id)); } }
            let ids: BTreeSet<u32> = got.iter().map(|g| g.1).collect();
            if got.len() != size || ids.len() != size {
                judged = Some((format!("{k}/capacity-after-refill"), format!("after everything was freed, {} allocations succeeded yielding {} distinct slots (POOL_SIZE {size}); history: {summary}", got.len(), ids.len())));
            }
            // (never written: nothing to destroy) -- leak them instead of running destructors on garbage
            std::mem::forget(got);
            payload::set_current_ledger(None);
            std::mem::forget(pool);
        } else {
            payload::set_current_ledger(None);
            std::mem::forget(pool);
        }
        let verdict = match judged { None => Verdict::Pass, Some((signature, detail)) => Verdict::Violation { signature, detail } };
        RunReport { verdict, nontrivial, classes, fingerprint: fp, trace: Some(out.trace), summary }
    }
}

// ---------------------------------------------------------------------------------------------------------------------
// C14: OgreArc / OgreUnique

type Alloc8 = AllocatorAtomicArray<Tracked, 8>;
type FAlloc8 = AllocatorFullSyncArray<Tracked, 8>;

pub trait Handle: Send {
    fn val(&self) -> u64;
    fn intact(&self) -> bool;
    fn clone_h(&self) -> Option<Box<dyn Handle>>;
    /// increment_references(n) + n raw copies
    fn bulk(&self, n: u32) -> Vec<Box<dyn Handle>>;
    fn into_arc(self: Box<Self>) -> Box<dyn Handle>;
    fn count(&self) -> Option<u32>;
    fn is_unique(&self) -> bool;
}
impl<A: BoundedOgreAllocator<Tracked> + Send + Sync + 'static> Handle for OgreArc<Tracked, A> {
    fn val(&self) -> u64 { (**self).val }
    fn intact(&self) -> bool { (**self).intact() }
    fn clone_h(&self) -> Option<Box<dyn Handle>> { Some(Box::new(self.clone())) }
    fn bulk(&self, n: u32) -> Vec<Box<dyn Handle>> { unsafe { self.increment_references(n); (0..n).map(|_| Box::new(self.raw_copy()) as Box<dyn Handle>).collect() } }
    fn into_arc(self: Box<Self>) -> Box<dyn Handle> { self }
    fn count(&self) -> Option<u32> { Some(self.references_count()) }
    fn is_unique(&self) -> bool { false }
}
impl<A: BoundedOgreAllocator<Tracked> + Send + Sync + 'static> Handle for OgreUnique<Tracked, A> {
    fn val(&self) -> u64 { (**self).val }
    fn intact(&self) -> bool { (**self).intact() }
    fn clone_h(&self) -> Option<Box<dyn Handle>> { None }
    fn bulk(&self, _n: u32) -> Vec<Box<dyn Handle>> { vec![] }
    // (both conversion paths: the method and the `From` impl; which one is a function of the value, so a case stays deterministic)
    fn into_arc(self: Box<Self>) -> Box<dyn Handle> { if ((**self).val >> 32) & 1 == 0 { Box::new((*self).into_ogre_arc()) } else { Box::new(OgreArc::from(*self)) } }
    fn count(&self) -> Option<u32> { None }
    fn is_unique(&self) -> bool { true }
}

#[derive(Clone, Copy, Debug, PartialEq, Eq, Serialize, Deserialize)]
pub enum HOp {
    /// OgreArc::new_with
    New,
    /// OgreArc::new_with_clones::<3>
    NewClones,
    /// OgreUnique::new
    NewUnique,
    Clone(u8),
    /// increment_references(2) + 2 raw copies
    Bulk(u8),
    IntoArc(u8),
    Deref(u8),
    Drop(u8),
    /// hand the handle to the next thread's mailbox
    Give(u8),
    /// take everything from this thread's mailbox
    Take,
}

#[derive(Clone, Debug, Serialize, Deserialize)]
pub struct HandleCase {
    pub free_list: FreeList,
    /// handles to one shared value every thread starts with (pre-cloned by the harness)
    pub shared_start: bool,
    /// pool slots the harness occupies before the threads start (7 of 8: a value created by one thread re-uses the slot another thread has just released)
    #[serde(default)]
    pub occupied:  u8,
    pub threads:   Vec<Vec<HOp>>,
    pub schedule:  Schedule,
}

pub struct C14Handles;

struct Allocs { a: Option<Box<Alloc8>>, f: Option<Box<FAlloc8>> }

impl Property for C14Handles {
    type Case = HandleCase;
    fn part(&self) -> &'static str { "handles-sched" }
    fn strategy(&self, _tier: Tier) -> BoxedStrategy<HandleCase> {
        let op = prop_oneof![
            2 => Just(HOp::New), 1 => Just(HOp::NewClones), 2 => Just(HOp::NewUnique),
            4 => (0u8..4).prop_map(HOp::Clone), 1 => (0u8..4).prop_map(HOp::Bulk), 2 => (0u8..4).prop_map(HOp::IntoArc),
            2 => (0u8..4).prop_map(HOp::Deref), 6 => (0u8..4).prop_map(HOp::Drop), 3 => (0u8..4).prop_map(HOp::Give), 3 => Just(HOp::Take)];
        (any::<bool>(), any::<bool>(), prop_oneof![3 => Just(0u8), 1 => Just(5u8), 2 => Just(6u8), 2 => Just(7u8)], vec(vec(op, 1..=6), 2..=3))
            .prop_flat_map(|(fs, shared_start, occupied, threads)| {
                let n = threads.len();
                let est = threads.iter().map(|t| t.len() as u32 * 8).sum::<u32>() + 8;
                (Just((fs, shared_start, occupied)), Just(threads), schedule_strategy(n, est))
            })
            .prop_map(|((fs, shared_start, occupied), threads, schedule)| HandleCase { free_list: if fs { FreeList::FullSync } else { FreeList::Atomic }, shared_start, occupied: if shared_start { occupied.min(6) } else { occupied }, threads, schedule })
            .boxed()
    }
    fn cases(&self, tier: Tier) -> u32 { match tier { Tier::Quick => 40_000, Tier::Thorough => 400_000 } }
    fn rule(&self) -> String {
        "generated: pool allocator (atomic | full-sync free list, 8 slots of which the harness occupies 0 / 5 / 6 / 7 beforehand, so that new values re-use slots other threads have just released) x 2..3 threads of 1..6 ops over {OgreArc::new_with, new_with_clones::<3>, OgreUnique::new, clone, increment_references(2)+2 raw copies, into_ogre_arc / OgreArc::from(unique) (alternating by value), deref+check, drop, hand a handle to the next thread, take handed-over handles} x optionally every thread starts with a clone of one shared value x schedule; values carry a destructor reporting to a ledger; \
         oracle: every deref of a live handle yields the value written at creation (intact); when all threads are done references_count() of every value equals its number of live shared handles and no value with a live handle was destroyed; after the remaining handles are dropped every value was destroyed exactly once, no destructor ran on garbage, and all 8 pool slots can be allocated again; \
         non-trivial: a clone or a drop of a handle overlapped a drop of another handle to the same value (a thread was switched out inside such an operation while another thread held a handle to the same value)".into()
    }
    fn schedule_mut<'a>(&self, case: &'a mut HandleCase) -> Option<&'a mut Schedule> { Some(&mut case.schedule) }
    fn run(&self, case: &HandleCase) -> RunReport {
        let ledger = Ledger::new();
        payload::set_current_ledger(Some(Arc::clone(&ledger)));
        // the allocator must outlive every handle: boxed and leaked on abnormal ends
        let allocs = Allocs {
            a: if case.free_list == FreeList::Atomic { Some(Box::new(<Alloc8 as BoundedOgreAllocator<Tracked>>::new())) } else { None },
            f: if case.free_list == FreeList::FullSync { Some(Box::new(<FAlloc8 as BoundedOgreAllocator<Tracked>>::new())) } else { None },
        };
        let a_ptr: usize = allocs.a.as_ref().map(|b| &**b as *const Alloc8 as usize).unwrap_or(0);
        let f_ptr: usize = allocs.f.as_ref().map(|b| &**b as *const FAlloc8 as usize).unwrap_or(0);
        let n = case.threads.len();
        let k = format!("{:?}", case.free_list);
        let new_arc = move |v: u64| -> Option<Box<dyn Handle>> {
            if a_ptr != 0 { OgreArc::new_with(|s| unsafe { std::ptr::write(s, Tracked::new(v)) }, unsafe { &*(a_ptr as *const Alloc8) }).map(|h| Box::new(h) as Box<dyn Handle>) }
            else { OgreArc::new_with(|s| unsafe { std::ptr::write(s, Tracked::new(v)) }, unsafe { &*(f_ptr as *const FAlloc8) }).map(|h| Box::new(h) as Box<dyn Handle>) }
        };
        let new_clones = move |v: u64| -> Option<Vec<Box<dyn Handle>>> {
            if a_ptr != 0 { OgreArc::new_with_clones::<3, _>(|s| unsafe { std::ptr::write(s, Tracked::new(v)) }, unsafe { &*(a_ptr as *const Alloc8) }).map(|hs| hs.into_iter().map(|h| Box::new(h) as Box<dyn Handle>).collect()) }
            else { OgreArc::new_with_clones::<3, _>(|s| unsafe { std::ptr::write(s, Tracked::new(v)) }, unsafe { &*(f_ptr as *const FAlloc8) }).map(|hs| hs.into_iter().map(|h| Box::new(h) as Box<dyn Handle>).collect()) }
        };
        let new_unique = move |v: u64| -> Option<Box<dyn Handle>> {
            if a_ptr != 0 { OgreUnique::new(|s| unsafe { std::ptr::write(s, Tracked::new(v)) }, unsafe { &*(a_ptr as *const Alloc8) }).map(|h| Box::new(h) as Box<dyn Handle>) }
            else { OgreUnique::new(|s| unsafe { std::ptr::write(s, Tracked::new(v)) }, unsafe { &*(f_ptr as *const FAlloc8) }).map(|h| Box::new(h) as Box<dyn Handle>) }
        };
        let mailboxes: Arc<Vec<Mutex<Vec<Box<dyn Handle>>>>> = Arc::new((0..n).map(|_| Mutex::new(vec![])).collect());
        let finals: Arc<Mutex<Vec<Box<dyn Handle>>>> = Arc::new(Mutex::new(vec![]));
        let problems: Arc<Mutex<Vec<String>>> = Arc::new(Mutex::new(vec![]));
        let created: Arc<Mutex<BTreeSet<u64>>> = Arc::new(Mutex::new(BTreeSet::new()));
        let mut start: Vec<Vec<Box<dyn Handle>>> = (0..n).map(|_| vec![]).collect();
        let mut parked_slots: Vec<u32> = vec![];
        for _ in 0..case.occupied.min(7) {
            let r = if a_ptr != 0 { unsafe { &*(a_ptr as *const Alloc8) }.alloc_ref().map(|x| x.1) } else { unsafe { &*(f_ptr as *const FAlloc8) }.alloc_ref().map(|x| x.1) };
            if let Some(id) = r { parked_slots.push(id); }
        }
        if case.shared_start {
            let v = payload::plain(200, 1);
            created.lock().unwrap().insert(v);
            let h = new_arc(v).expect("fresh pool");
            for t in 1..n { start[t].push(h.clone_h().unwrap()); }
            start[0].push(h);
        }
        let sched = Sched::new(n, case.schedule.clone(), 20_000);
        let mut bodies: Vec<Box<dyn FnOnce(&ThreadCtx) + Send>> = vec![];
        for (t, script) in case.threads.iter().enumerate() {
            let script = script.clone();
            let mailboxes = Arc::clone(&mailboxes);
            let finals = Arc::clone(&finals);
            let problems = Arc::clone(&problems);
            let created = Arc::clone(&created);
            let ledger = Arc::clone(&ledger);
            let mine = std::mem::take(&mut start[t]);
            bodies.push(Box::new(move |ctx: &ThreadCtx| {
                payload::set_current_ledger(Some(Arc::clone(&ledger)));
                let mut hs: Vec<Box<dyn Handle>> = mine;
                let mut seq = 0u32;
                let idx = |i: u8, len: usize| ((i as usize * len) / 4).min(len.saturating_sub(1));
                for op in script {
                    ctx.point("op.call");
                    ctx.op(|| match op {
                        HOp::New | HOp::NewUnique | HOp::NewClones => {
                            seq += 1;
                            let v = payload::plain(t as u8, seq);
                            match op {
                                HOp::New => if let Some(h) = new_arc(v) { created.lock().unwrap().insert(v); hs.push(h); },
                                HOp::NewUnique => if let Some(h) = new_unique(v) { created.lock().unwrap().insert(v); hs.push(h); },
                                _ => if let Some(v3) = new_clones(v) { created.lock().unwrap().insert(v); hs.extend(v3); },
                            }
                        },
                        HOp::Clone(i) => if !hs.is_empty() { let j = idx(i, hs.len()); if let Some(c) = hs[j].clone_h() { hs.push(c); } },
                        HOp::Bulk(i) => if !hs.is_empty() { let j = idx(i, hs.len()); let more = hs[j].bulk(2); hs.extend(more); },
                        HOp::IntoArc(i) => if !hs.is_empty() { let j = idx(i, hs.len()); if hs[j].is_unique() { let h = hs.remove(j); hs.push(h.into_arc()); } },
                        HOp::Deref(i) => if !hs.is_empty() {
                            let j = idx(i, hs.len());
                            let v = hs[j].val();
                            if !hs[j].intact() || ledger.drops_of(v) > 0 { problems.lock().unwrap().push(format!("T{t}: a live handle dereferences to a destroyed / changed value ({})", payload::show(v))); }
                        },
                        HOp::Drop(i) => if !hs.is_empty() {
                            let j = idx(i, hs.len());
                            let h = hs.remove(j);
                            if !h.intact() { problems.lock().unwrap().push(format!("T{t}: the value behind a handle about to be dropped is no longer intact ({:#x})", h.val())); }
                            drop(h);
                        },
                        HOp::Give(i) => if !hs.is_empty() { let j = idx(i, hs.len()); let h = hs.remove(j); mailboxes[(t + 1) % mailboxes.len()].lock().unwrap().push(h); },
                        HOp::Take => { let got: Vec<Box<dyn Handle>> = std::mem::take(&mut *mailboxes[t].lock().unwrap()); hs.extend(got); },
                    });
                }
                // (aborted runs unwind through here: leak instead of dropping)
                if std::thread::panicking() { std::mem::forget(hs); } else { finals.lock().unwrap().extend(hs); }
            }));
        }
        let out = sched.execute(bodies);
        let mut classes = vec![format!("free-list:{:?}", case.free_list), format!("pool-slots-free:{}", 8 - case.occupied.min(7))];
        if case.shared_start { classes.push("shared-start".into()); }
        let fp = { use std::hash::{Hash, Hasher}; let mut h = std::collections::hash_map::DefaultHasher::new(); format!("{:?}", (case.free_list, case.shared_start, case.occupied, &case.threads)).hash(&mut h); out.trace.hash(&mut h); h.finish() };
        let summary = format!("{:?}", case.threads);
        let leak_all = |allocs: Allocs| { std::mem::forget(allocs); };
        match &out.end {
            EndState::Completed => {},
            other => {
                let verdict = match other {
                    EndState::Budget => Verdict::Inconclusive("step-budget".into()),
                    EndState::Blocked { .. } => Verdict::Inconclusive("blocked-in-uninstrumented-wait".into()),
                    EndState::Stall { stuck, .. } => Verdict::Violation { signature: format!("{k}/stall"), detail: format!("threads {:?} spin for ever; scripts {summary}", stuck) },
                    EndState::Panicked { tid, msg } => Verdict::Violation { signature: format!("{k}/panic"), detail: format!("thread {tid} panicked: {msg}; scripts {summary}") },
                    EndState::Completed => unreachable!(),
                };
                std::mem::forget(std::mem::take(&mut *finals.lock().unwrap()));
                for m in mailboxes.iter() { std::mem::forget(std::mem::take(&mut *m.lock().unwrap())); }
                leak_all(allocs);
                payload::set_current_ledger(None);
                let nt = matches!(verdict, Verdict::Violation { .. });
                return RunReport { verdict, nontrivial: nt, classes, fingerprint: fp, trace: Some(out.trace), summary };
            },
        }
        let nontrivial = out.switches_inside_ops > 0;
        let mut judged: Option<(String, String)> = problems.lock().unwrap().first().map(|p| (format!("{k}/value-gone-while-handle-lives"), format!("{p}; scripts {summary}")));
        // quiescent: counts
        let mut live: Vec<Box<dyn Handle>> = std::mem::take(&mut *finals.lock().unwrap());
        for m in mailboxes.iter() { live.extend(std::mem::take(&mut *m.lock().unwrap())); }
        let mut per_val: BTreeMap<u64, (u32, bool)> = BTreeMap::new();
        for h in &live { let e = per_val.entry(h.val()).or_insert((0, false)); e.0 += 1; if h.is_unique() { e.1 = true; } }
        if judged.is_none() {
            for h in &live {
                let v = h.val();
                if !h.intact() || ledger.drops_of(v) > 0 { judged = Some((format!("{k}/value-gone-while-handle-lives"), format!("{} was destroyed (or changed) while a handle to it is alive; scripts {summary}", payload::show(v)))); break; }
                if let Some(c) = h.count() { if c != per_val[&v].0 { judged = Some((format!("{k}/references-count"), format!("references_count() of {} is {c} with {} live shared handles and nothing in progress; scripts {summary}", payload::show(v), per_val[&v].0))); break; } }
            }
        }
        let had_live = !live.is_empty();
        if judged.is_some() { std::mem::forget(live); } else { drop(live); }
        if judged.is_none() {
            if ledger.corrupt() > 0 { judged = Some((format!("{k}/destructor-on-garbage"), format!("{} destructor run(s) on something that is not an intact value; scripts {summary}", ledger.corrupt()))); }
            let drops: BTreeMap<u64, u32> = ledger.all().into_iter().collect();
            for v in created.lock().unwrap().iter() {
                let n = drops.get(v).copied().unwrap_or(0);
                if n != 1 && judged.is_none() { judged = Some((format!("{k}/destroyed-{}-times", n), format!("{} was destroyed {n} times although every handle to it was dropped exactly once; scripts {summary}", payload::show(*v)))); }
            }
        }
        if judged.is_none() {
            // the slots are back
            let mut got = 0;
            let mut keep = vec![];
            for _ in 0..9 {
                let r = if a_ptr != 0 { unsafe { &*(a_ptr as *const Alloc8) }.alloc_ref().map(|x| x.1) } else { unsafe { &*(f_ptr as *const FAlloc8) }.alloc_ref().map(|x| x.1) };
                if let Some(id) = r { got += 1; keep.push(id); }
            }
            if got + parked_slots.len() != 8 { judged = Some((format!("{k}/slots-not-returned"), format!("after every handle was dropped {got} pool slots could be allocated ({} are held by the harness, the pool has 8); scripts {summary}", parked_slots.len()))); }
        }
        let _ = had_live;
        leak_all(allocs);
        payload::set_current_ledger(None);
        let verdict = match judged { None => Verdict::Pass, Some((signature, detail)) => Verdict::Violation { signature, detail } };
        RunReport { verdict, nontrivial, classes, fingerprint: fp, trace: Some(out.trace), summary }
    }
}

// ---------------------------------------------------------------------------------------------------------------------
// C19: incremental-average metric

#[derive(Clone, Debug, Serialize, Deserialize)]
pub struct AvgCase {
    /// per recorder thread: measurements (indices into the value menu)
    pub recorders: Vec<Vec<u8>>,
    /// the reader probes this many times
    pub probes:    u8,
    pub schedule:  Schedule,
}

static MEASUREMENTS: [f32; 8] = [-1.0, 0.0, 0.5, 3.0, 1024.0, 65536.0, 2.0, 8.0];

pub struct C19Average;

impl Property for C19Average {
    type Case = AvgCase;
    fn part(&self) -> &'static str { "average-sched" }
    fn strategy(&self, _tier: Tier) -> BoxedStrategy<AvgCase> {
        (vec(vec(0u8..8, 1..=5), 2..=3), 1u8..5)
            .prop_flat_map(|(recorders, probes)| {
                let n = recorders.len() + 1;
                let est = recorders.iter().map(|r| r.len() as u32 * 4).sum::<u32>() + probes as u32 * 2 + 4;
                (Just(recorders), Just(probes), schedule_strategy(n, est))
            })
            .prop_map(|(recorders, probes, schedule)| AvgCase { recorders, probes, schedule })
            .boxed()
    }
    fn cases(&self, tier: Tier) -> u32 { match tier { Tier::Quick => 40_000, Tier::Thorough => 400_000 } }
    fn rule(&self) -> String {
        "generated: 2..3 recorder threads with 1..5 measurements each from {-1.0 ('no timing' sentinel), 0, 0.5, 2, 3, 8, 1024, 65536} + one reader probing 1..4 times x schedule, on a StreamExecutor's public ok_events_avg_future_duration metric (AtomicIncrementalAverage64); \
         oracle: the final count equals the number of inc() calls; the final average equals the arithmetic mean (relative 1e-4); every probe (c, a): c lies between the incs completed before the probe was called and the incs started before it returned, and a is the mean of some choice of c measurements made of a prefix of every recorder's sequence that is consistent with those bounds per recorder (so count and average belong to the same update); \
         non-trivial: a compare-exchange of inc() failed and was retried (two updates collided)".into()
    }
    fn schedule_mut<'a>(&self, case: &'a mut AvgCase) -> Option<&'a mut Schedule> { Some(&mut case.schedule) }
    fn run(&self, case: &AvgCase) -> RunReport {
        use reactive_mutiny::stream_executor::StreamExecutor;
        let exec = StreamExecutor::<0>::new("rmv");
        let n = case.recorders.len();
        // (thread, index, call, ret)
        let incs: Arc<Mutex<Vec<(usize, usize, u64, u64)>>> = Arc::new(Mutex::new(vec![]));
        let probes: Arc<Mutex<Vec<(u64, u64, u32, f32)>>> = Arc::new(Mutex::new(vec![]));
        let sched = Sched::new(n + 1, case.schedule.clone(), 20_000);
        let mut bodies: Vec<Box<dyn FnOnce(&ThreadCtx) + Send>> = vec![];
        for (t, ms) in case.recorders.iter().enumerate() {
            let ms = ms.clone();
            let exec = Arc::clone(&exec);
            let incs = Arc::clone(&incs);
            bodies.push(Box::new(move |ctx: &ThreadCtx| {
                for (i, m) in ms.iter().enumerate() {
                    ctx.point("inc.call");
                    let call = ctx.tick();
                    ctx.op(|| exec.ok_events_avg_future_duration.inc(MEASUREMENTS[*m as usize % 8]));
                    let ret = ctx.tick();
                    incs.lock().unwrap().push((t, i, call, ret));
                }
            }));
        }
        {
            let exec = Arc::clone(&exec);
            let probes = Arc::clone(&probes);
            let count = case.probes;
            bodies.push(Box::new(move |ctx: &ThreadCtx| {
                for _ in 0..count {
                    ctx.point("probe.call");
                    let call = ctx.tick();
                    let (c, a) = ctx.op(|| exec.ok_events_avg_future_duration.probe());
                    let ret = ctx.tick();
                    probes.lock().unwrap().push((call, ret, c, a));
                }
            }));
        }
        let out = sched.execute(bodies);
        let fp = { use std::hash::{Hash, Hasher}; let mut h = std::collections::hash_map::DefaultHasher::new(); format!("{:?}{}", case.recorders, case.probes).hash(&mut h); out.trace.hash(&mut h); h.finish() };
        let incs = incs.lock().unwrap().clone();
        let probes = probes.lock().unwrap().clone();
        let summary = format!("recorders={:?} probes={:?}", case.recorders.iter().map(|r| r.iter().map(|m| MEASUREMENTS[*m as usize % 8]).collect::<Vec<_>>()).collect::<Vec<_>>(), probes);
        let classes = vec![format!("recorders:{}", n)];
        if out.end != EndState::Completed {
            let verdict = match &out.end { EndState::Budget => Verdict::Inconclusive("step-budget".into()), EndState::Blocked { .. } => Verdict::Inconclusive("blocked-in-uninstrumented-wait".into()),
                other => Verdict::Violation { signature: "average/abnormal-end".into(), detail: format!("{:?}; {summary}", other) } };
            return RunReport { verdict, nontrivial: false, classes, fingerprint: fp, trace: Some(out.trace), summary };
        }
        let total: usize = case.recorders.iter().map(|r| r.len()).sum();
        let vals = |t: usize, i: usize| MEASUREMENTS[case.recorders[t][i] as usize % 8] as f64;
        let scale = case.recorders.iter().flatten().map(|m| MEASUREMENTS[*m as usize % 8].abs() as f64).fold(1.0, f64::max);
        let close = |a: f64, b: f64| (a - b).abs() <= 1e-4 * scale.max(b.abs());
        let mut judged: Option<(String, String)> = None;
        let (fc, fa) = exec.ok_events_avg_future_duration.probe();
        if fc as usize != total { judged = Some(("average/lost-update".into(), format!("{total} measurements were recorded but the final count is {fc}; {summary}"))); }
        let mean_all: f64 = (0..n).flat_map(|t| (0..case.recorders[t].len()).map(move |i| (t, i))).map(|(t, i)| vals(t, i)).sum::<f64>() / total as f64;
        if judged.is_none() && !close(fa as f64, mean_all) { judged = Some(("average/wrong-mean".into(), format!("final average {fa} but the arithmetic mean of the {total} measurements is {mean_all}; {summary}"))); }
        if judged.is_none() {
            for (pc, pr, c, a) in &probes {
                // per recorder: at least `lo[t]` of its incs are included (completed before the probe was called), at most `hi[t]` (started before it returned)
                let lo: Vec<usize> = (0..n).map(|t| incs.iter().filter(|x| x.0 == t && x.3 < *pc).count()).collect();
                let hi: Vec<usize> = (0..n).map(|t| incs.iter().filter(|x| x.0 == t && x.2 < *pr).count()).collect();
                let mut explained = false;
                let mut pick = vec![0usize; n];
                fn rec(t: usize, n: usize, lo: &[usize], hi: &[usize], pick: &mut Vec<usize>, f: &mut dyn FnMut(&[usize]) -> bool) -> bool {
                    if t == n { return f(pick); }
                    for k in lo[t]..=hi[t] { pick[t] = k; if rec(t + 1, n, lo, hi, pick, f) { return true; } }
                    false
                }
                rec(0, n, &lo, &hi, &mut pick, &mut |p: &[usize]| {
                    let cnt: usize = p.iter().sum();
                    if cnt != *c as usize { return false; }
                    if cnt == 0 { explained = *a == 0.0; return explained; }
                    let sum: f64 = (0..n).map(|t| (0..p[t]).map(|i| vals(t, i)).sum::<f64>()).sum();
                    explained = close(*a as f64, sum / cnt as f64);
                    explained
                });
                if !explained {
                    judged = Some(("average/inconsistent-probe".into(), format!("probe over [{pc},{pr}] returned (count {c}, average {a}), which is not the mean of any {c} measurements that could have been recorded by then (per-recorder bounds {:?}..{:?}); {summary}", lo, hi)));
                    break;
                }
            }
        }
        // a CAS retry happened?
        let nontrivial = out.switches_inside_ops > 0;
        let verdict = match judged { None => Verdict::Pass, Some((signature, detail)) => Verdict::Violation { signature, detail } };
        RunReport { verdict, nontrivial, classes, fingerprint: fp, trace: Some(out.trace), summary }
    }
}
