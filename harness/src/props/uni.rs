//! Generators and oracles over the shared channel scenario (chanrun.rs) for the delivery properties:
//! C01 (exactly-once delivery, Uni), C02 (one atomic bounded FIFO, Uni channels), C03 (Multi fan-out), C04 (no lost wake-up).

use crate::chan::{ChanKind, Entry, ALL_KINDS, MULTI_KINDS, UNI_KINDS};
use crate::driver::{Property, RunReport, Tier, Verdict};
use crate::lin::{self, Act, FullRule, Model, Occupancy, Op};
use crate::payload;
use crate::props::chanrun::*;
use crate::sched::{EndState, Schedule};
use proptest::collection::vec;
use proptest::prelude::*;
use std::collections::{BTreeMap, BTreeSet, HashMap};

// ---------------------------------------------------------------------------------------------------------------------
// generation

#[derive(Clone, Copy)]
pub struct Gen {
    pub kinds:         &'static [ChanKind],
    pub max_streams:   &'static [u8],
    pub buffers:       &'static [u8],
    pub max_producers: usize,
    pub max_ops:       usize,
    pub max_consumers: usize,
    pub retry:         bool,
    pub fresh_wakers:  bool,
    pub origins:       bool,
    /// weight of "start with the buffer almost full / full" prefills
    pub prefill:       bool,
    /// an extra thread calls `cancel_all_streams()` at a generated point
    pub canceller:     bool,
    /// listeners may join late (created by their own thread during the run) and / or leave early (dropped after n items)
    pub churn:         bool,
    /// consumers clone handles / convert unique handles into shared ones before releasing them
    pub handles:       bool,
    /// producers use split async sends (begin ... other operations ... resume) and length queries; suspended sends may never be resumed
    pub async_ops:     bool,
    /// minimum number of consumers
    pub min_consumers: usize,
    /// consumers may drop their stream themselves as soon as it answered end-of-stream (as an executor task does)
    pub drop_on_end:   bool,
    /// an extra thread calls gracefully_end_all_streams() at a generated point (every consumer then drops its stream when it ended)
    pub end_all:       bool,
    /// an extra thread calls gracefully_end_stream() on one consumer's stream at a generated point
    pub end_one:       bool,
    /// producers keep reservations outstanding, send them oldest-first and cancel them newest-first (kinds implementing the API)
    pub reserve_ops:   bool,
    /// the crossbeam Uni channel's setter-based sends may meet a full buffer after their fullness test (they then *wait*, by documented
    /// design: the retry loop holds scheduling points, so the consumers get their turns and the send completes once there is room)
    pub crossbeam_setters_may_wait: bool,
    /// some consumers drop their stream by themselves after 1..3 items (listeners that leave during the run), without anybody joining late
    pub leavers: bool,
}

impl Default for Gen {
    fn default() -> Self {
        Gen { kinds: &UNI_KINDS, max_streams: &[1, 2, 4], buffers: &[2, 4, 8], max_producers: 3, max_ops: 3, max_consumers: 3, retry: false, fresh_wakers: false,
              origins: false, prefill: false, canceller: false, churn: false, handles: false, async_ops: false, min_consumers: 1, drop_on_end: false, end_all: false, end_one: false, reserve_ops: false, crossbeam_setters_may_wait: false, leavers: false }
    }
}

/// number of events a script may try to send
fn sends_in(script: &[POp]) -> usize {
    script.iter().filter(|o| matches!(o, POp::Send(_) | POp::SendRetry(_) | POp::AsyncBegin(_) | POp::Reserve)).count()
}

/// Makes a generated case respect the documented restrictions (construction instead of rejection; applied after shrinking too)
pub fn sanitize(c: ChanCase) -> ChanCase { sanitize_with(c, false) }
pub fn sanitize_with(mut c: ChanCase, crossbeam_setters_may_wait: bool) -> ChanCase {
    let kind = c.kind;
    let entries = kind.entries();
    let fix = |e: Entry| -> Entry { if entries.contains(&e) || matches!(e, Entry::SendAsync(_)) && kind.has_async() { e } else { Entry::Send } };
    for p in c.producers.iter_mut() {
        for op in p.iter_mut() {
            *op = match *op {
                POp::Send(e) => POp::Send(fix(e)),
                POp::SendRetry(e) => POp::SendRetry(fix(e)),
                POp::AsyncBegin(k) if !kind.has_async() => POp::Send(Entry::Send),
                POp::Reserve | POp::SendOldestReserved | POp::CancelNewestReserved if !kind.has_reserve() => POp::Pause(1),
                other => other,
            };
        }
    }
    if kind == ChanKind::UniMoveAtomic {
        // documented restriction: no plain send while the calling thread has a reservation outstanding
        for p in c.producers.iter_mut() {
            let mut outstanding = 0i32;
            for op in p.iter_mut() {
                match *op {
                    POp::Reserve => outstanding += 1,
                    POp::SendOldestReserved | POp::CancelNewestReserved => outstanding = (outstanding - 1).max(0),
                    POp::Send(_) | POp::SendRetry(_) | POp::AsyncBegin(_) if outstanding > 0 => *op = POp::Pause(1),
                    _ => {},
                }
            }
        }
    }
    c.consumers.truncate(c.max_streams as usize);
    if c.consumers.is_empty() { c.consumers.push(Consumer::default()); }
    c.prefill = c.prefill.min(c.buffer);
    // kinds that *wait* (documented) when full: never let them get full
    let setter_used = c.producers.iter().flatten().any(|o| matches!(o, POp::Send(Entry::SendWith | Entry::SendAsync(_)) | POp::SendRetry(Entry::SendWith | Entry::SendAsync(_)) | POp::AsyncBegin(_)));
    if kind.waits_when_full() || (kind == ChanKind::UniMoveCrossbeam && setter_used && !crossbeam_setters_may_wait) {
        let mut room = c.buffer as usize;
        c.prefill = c.prefill.min(room as u8);
        room -= c.prefill as usize;
        for p in c.producers.iter_mut() {
            let mut kept = vec![];
            for op in p.iter() {
                let is_send = sends_in(std::slice::from_ref(op)) > 0;
                if is_send { if room == 0 { continue; } room -= 1; }
                kept.push(*op);
            }
            *p = kept;
        }
    }
    if kind.is_multi() && !kind.is_mmap() {
        // Multi: prefill goes to the listeners that exist before the threads start; late joiners are fine
    }
    c
}

pub fn case_strategy(g: Gen) -> BoxedStrategy<ChanCase> {
    let origin = if g.origins { origin_strategy() } else { Just(0u32).boxed() };
    (config_strategy(g.kinds, g.max_streams, g.buffers), origin)
        .prop_flat_map(move |((kind, b, m), origin)| {
            let entry = entry_strategy(kind);
            let mut ops: Vec<(u32, BoxedStrategy<POp>)> = vec![(6, entry.clone().prop_map(POp::Send).boxed())];
            if g.retry { ops.push((4, entry.prop_map(POp::SendRetry).boxed())); }
            if g.async_ops {
                if kind.has_async() { ops.push((5, (1u8..4).prop_map(POp::AsyncBegin).boxed())); ops.push((4, Just(POp::AsyncPoll).boxed())); }
                ops.push((1, Just(POp::Len).boxed()));
                if kind.has_reserve() { ops.push((1, Just(POp::Reserve).boxed())); ops.push((1, Just(POp::SendOldestReserved).boxed())); }
            }
            if g.reserve_ops && kind.has_reserve() { ops.push((5, Just(POp::Reserve).boxed())); ops.push((4, Just(POp::SendOldestReserved).boxed())); ops.push((3, Just(POp::CancelNewestReserved).boxed())); }
            let op = proptest::strategy::Union::new_weighted(ops);
            let mut producers = vec(vec(op, 1..=g.max_ops), 1..=g.max_producers).boxed();
            if g.canceller {
                producers = (producers, 0u8..12).prop_map(|(mut p, pause)| { p.push(vec![POp::Pause(pause), POp::CancelAll]); p }).boxed();
            }
            if g.end_all {
                producers = (producers, 0u8..16).prop_map(|(mut p, pause)| { p.push(vec![POp::Pause(pause), POp::EndAll]); p }).boxed();
            }
            if g.end_one {
                producers = (producers, 0u8..16, any::<u8>()).prop_map(|(mut p, pause, sel)| { p.push(vec![POp::Pause(pause), POp::EndStream(sel)]); p }).boxed();
            }
            let fresh = if g.fresh_wakers { vec(0u8..5, 0..2).boxed() } else { Just(vec![]).boxed() };
            let churn = g.churn;
            let leavers = g.leavers;
            let handles = g.handles;
            let drop_on_end = g.drop_on_end;
            let consumer = (0u8..3, fresh, any::<u8>(), 1u8..4, any::<u8>()).prop_map(move |(hold, fresh_waker_at, c, n, h)| Consumer {
                hold, fresh_waker_at,
                create_late: churn && c % 3 == 1,
                stop_after: if (churn || leavers) && c % 3 == 2 { Some(n) } else { None },
                clone_handle: handles && h & 1 == 1,
                into_shared: handles && h & 2 == 2,
                max_items: None,
                drop_on_end: drop_on_end && h & 4 == 4,
                resubscribe: None,
            });
            let lo = g.min_consumers.min(m as usize).max(1);
            let hi = (m as usize).min(g.max_consumers).max(lo);
            let consumers = vec(consumer, lo..=hi);
            let prefill = if g.prefill { prop_oneof![3 => Just(0u8), 1 => Just(1u8), 1 => Just(b - 1), 1 => Just(b), 1 => 0..=b].boxed() } else { Just(0u8).boxed() };
            let finish_async = if g.async_ops { any::<bool>().boxed() } else { Just(true).boxed() };
            (Just((kind, b, m, origin)), producers, consumers, prefill, finish_async)
        })
        .prop_flat_map(|(cfg, producers, consumers, prefill, finish_async)| {
            let n = producers.len() + consumers.len();
            let est: u32 = producers.iter().map(|p| p.len() as u32 * 14).sum::<u32>() + consumers.len() as u32 * 24 + 10;
            (Just(cfg), Just(producers), Just(consumers), Just(prefill), Just(finish_async), sparse_or_any_schedule(n, est))
        })
        .prop_map(move |((kind, buffer, max_streams, origin), producers, consumers, prefill, finish_async, schedule)| {
            finalize_case(&g, ChanCase { kind, buffer, max_streams, origin, prefill, producers, consumers, finish_async, leftovers: false, schedule })
        })
        .boxed()
}

/// the last step of generation (shared by the proptest strategy and the fuzz decoder): documented restrictions + the roles the options assign
pub fn finalize_case(g: &Gen, c: ChanCase) -> ChanCase {
    let mut c = sanitize_with(c, g.crossbeam_setters_may_wait);
    if g.end_all { for k in c.consumers.iter_mut() { k.drop_on_end = true; k.create_late = false; k.stop_after = None; } }
    if g.end_one {
        let n = c.consumers.len() as u8;
        let mut target = 0u8;
        for p in c.producers.iter_mut() { for op in p.iter_mut() { if let POp::EndStream(sel) = op { *sel %= n; target = *sel; } } }
        let resub = c.consumers[target as usize].hold;      // (re-using a generated number: 0 = no re-subscription)
        let t = &mut c.consumers[target as usize];
        t.drop_on_end = true; t.create_late = false; t.stop_after = None;
        t.resubscribe = if resub > 0 { Some(resub * 2) } else { None };
    }
    c
}

/// structure-aware decoding of fuzzer bytes into a case of `case_strategy(g)`'s domain (same menus, same roles, same final step)
pub fn decode_chan(u: &mut arbitrary::Unstructured<'_>, g: &Gen) -> Option<ChanCase> {
    let b = |u: &mut arbitrary::Unstructured<'_>| -> u8 { u.arbitrary::<u8>().unwrap_or(0) };
    let kind = g.kinds[b(u) as usize % g.kinds.len()];
    let cfgs: Vec<(u8, u8)> = crate::chan::CONFIGS.iter().copied().filter(|(bf, m)| g.buffers.contains(bf) && g.max_streams.contains(m)).collect();
    let (buffer, max_streams) = cfgs[b(u) as usize % cfgs.len()];
    let origin = if g.origins { let x = b(u); if x < 150 { 0 } else { u32::MAX - (x as u32 % 40) } } else { 0 };
    let entries = kind.entries();
    let n_prod = 1 + b(u) as usize % g.max_producers.max(1);
    let mut producers = vec![];
    for _ in 0..n_prod {
        let n_ops = 1 + b(u) as usize % g.max_ops.max(1);
        let mut script = vec![];
        for _ in 0..n_ops {
            let e = entries[b(u) as usize % entries.len()];
            let mut menu: Vec<POp> = vec![POp::Send(e), POp::Send(e), POp::Send(e)];
            if g.retry { menu.push(POp::SendRetry(e)); menu.push(POp::SendRetry(e)); }
            if g.async_ops {
                if kind.has_async() { menu.push(POp::AsyncBegin(1 + b(u) % 3)); menu.push(POp::AsyncBegin(1)); menu.push(POp::AsyncPoll); menu.push(POp::AsyncPoll); }
                menu.push(POp::Len);
                if kind.has_reserve() { menu.push(POp::Reserve); menu.push(POp::SendOldestReserved); }
            }
            if g.reserve_ops && kind.has_reserve() { menu.push(POp::Reserve); menu.push(POp::Reserve); menu.push(POp::SendOldestReserved); menu.push(POp::SendOldestReserved); menu.push(POp::CancelNewestReserved); }
            script.push(menu[b(u) as usize % menu.len()]);
        }
        producers.push(script);
    }
    if g.canceller { producers.push(vec![POp::Pause(b(u) % 12), POp::CancelAll]); }
    if g.end_all { producers.push(vec![POp::Pause(b(u) % 16), POp::EndAll]); }
    if g.end_one { producers.push(vec![POp::Pause(b(u) % 16), POp::EndStream(b(u))]); }
    let lo = g.min_consumers.min(max_streams as usize).max(1);
    let hi = (max_streams as usize).min(g.max_consumers).max(lo);
    let n_cons = lo + b(u) as usize % (hi - lo + 1);
    let mut consumers = vec![];
    for _ in 0..n_cons {
        let (c, n, h) = (b(u), 1 + b(u) % 3, b(u));
        let fresh_waker_at = if g.fresh_wakers && h & 8 == 8 { vec![b(u) % 5] } else { vec![] };
        consumers.push(Consumer { hold: b(u) % 3, fresh_waker_at, create_late: g.churn && c % 3 == 1, stop_after: if (g.churn || g.leavers) && c % 3 == 2 { Some(n) } else { None },
                                  clone_handle: g.handles && h & 1 == 1, into_shared: g.handles && h & 2 == 2, max_items: None, drop_on_end: g.drop_on_end && h & 4 == 4, resubscribe: None });
    }
    let prefill = if g.prefill { match b(u) % 7 { 0 | 1 | 2 => 0, 3 => 1, 4 => buffer - 1, 5 => buffer, _ => b(u) % (buffer + 1) } } else { 0 };
    let finish_async = if g.async_ops { b(u) & 1 == 1 } else { true };
    let n_threads = (producers.len() + consumers.len()) as u8;
    let schedule = match b(u) % 8 {
        0..=3 => { let k = b(u) % 8; let mut step = 0u32; Schedule::Sparse((0..k).map(|_| { step += b(u) as u32 % 24 + 1; (step, b(u) % n_threads) }).collect()) },
        4 | 5 => Schedule::Pct { seed: u.arbitrary::<u64>().unwrap_or(1), depth: 1 + b(u) % 4, est_len: 10 + producers.iter().map(|p| p.len() as u32 * 14).sum::<u32>() + consumers.len() as u32 * 24 },
        _ => Schedule::Random { seed: u.arbitrary::<u64>().unwrap_or(1), per_1024: [64u16, 200, 500][b(u) as usize % 3] },
    };
    Some(finalize_case(g, ChanCase { kind, buffer, max_streams, origin, prefill, producers, consumers, finish_async, leftovers: false, schedule }))
}

// ---------------------------------------------------------------------------------------------------------------------
// shared bookkeeping over a run

pub struct Facts<'a> {
    pub run:       &'a ChanRun,
    /// value -> the send record that was accepted for it (prefill values map to None)
    pub accepted:  BTreeMap<u64, Option<&'a SendRec>>,
    pub rejected:  BTreeSet<u64>,
    /// value -> polls (run + drain) that yielded it
    pub delivered: BTreeMap<u64, Vec<&'a PollRec>>,
}

impl<'a> Facts<'a> {
    pub fn new(run: &'a ChanRun) -> Self {
        let mut accepted: BTreeMap<u64, Option<&SendRec>> = BTreeMap::new();
        let mut rejected = BTreeSet::new();
        for v in &run.prefill { accepted.insert(*v, None); }
        for s in &run.sends {
            if s.accepted && !s.unfinished { accepted.insert(s.val, Some(s)); }
        }
        for s in &run.sends {
            if !s.accepted && !s.unfinished && !accepted.contains_key(&s.val) { rejected.insert(s.val); }
        }
        let mut delivered: BTreeMap<u64, Vec<&PollRec>> = BTreeMap::new();
        for p in &run.polls { if let PollRes::Item { val, .. } = p.res { delivered.entry(val).or_default().push(p); } }
        Facts { run, accepted, rejected, delivered }
    }
}

fn end_state_verdict(case: &ChanCase, run: &ChanRun) -> Option<Verdict> {
    match &run.end {
        EndState::Completed => None,
        // a send that blocks the calling thread inside an un-instrumented primitive: C16's subject ("a rejected send does not block"); the kinds
        // documented to wait when full are kept below capacity by construction
        EndState::Blocked { tid } => {
            let op = run.cur_ops.get(*tid).cloned().unwrap_or_default();
            if *tid < run.n_producers && !case.kind.waits_when_full() && op.starts_with("send") && !op.contains("send_with") {
                Some(Verdict::Violation { signature: format!("{}/{}/blocked-instead-of-returning", case.kind.short(), op),
                    detail: format!("thread {tid} never returned from `{op}` (no scheduling point for 8 s while it alone was allowed to run): it is blocked inside the channel instead of handing the event back; history: {}", run.render()) })
            } else { Some(Verdict::Inconclusive("blocked-in-uninstrumented-wait".into())) }
        },
        EndState::Budget => { if std::env::var("RMV_SHOW_BUDGET").is_ok() { eprintln!("BUDGET {} || {}", serde_json::to_string(case).unwrap_or_default(), run.render()); } Some(Verdict::Inconclusive("step-budget".into())) },
        EndState::Stall { stuck, parked } => Some(Verdict::Violation {
            signature: format!("{}/stall", case.kind.short()),
            detail: format!("no thread can make progress: threads {:?} spin on an operation nobody will ever let succeed (parked: {:?}); history: {}", stuck, parked, run.render()) }),
        // known finding R8 (keyed under C17): a send whose fan-out overlaps the drop of a listener (which rebuilds the live-listener list) may keep
        // feeding the dead listener's queue until it is full -- the library then panics with "BUG! This should never happen". Outside C17 such runs are set aside.
        EndState::Panicked { msg, .. } if (case.kind.is_arc() || case.kind.is_ogre_arc()) && msg.contains("is full of elements")
            && run.consumers.iter().any(|c| c.dropped_at.is_some() || c.ended) =>      // (the panicking send itself is not in the log: any listener drop during the run counts)
            Some(Verdict::Inconclusive("r8-region(send-overlapped-a-listener-drop)".into())),
        EndState::Panicked { tid, msg } => Some(Verdict::Violation {
            signature: format!("{}/panic", case.kind.short()),
            detail: format!("thread {tid} panicked: {msg}; history: {}", run.render()) }),
    }
}

/// 5.1 for Uni channels: exactly-once delivery of accepted events, integrity, rejected ones never delivered and handed back untouched
pub fn judge_delivery_uni(case: &ChanCase, run: &ChanRun) -> Option<(String, String)> {
    let k = case.kind.short();
    let f = Facts::new(run);
    for s in &run.sends {
        if !s.contract_ok && !s.unfinished {
            let what = if s.accepted { "accepted-setter-not-run-exactly-once" } else { "rejected-input-not-handed-back-untouched" };
            return Some((format!("{k}/{}/{what}", entry_name(s.entry)), format!("send of {} by P{}: {}; history: {}", payload::show(s.val), s.thread, what, run.render())));
        }
    }
    for p in &run.polls {
        if let PollRes::Item { val, intact, .. } = p.res {
            if !intact || payload::decode(val).is_none() {
                return Some((format!("{k}/corrupt-payload"), format!("stream {} yielded a corrupted payload {val:#x}; history: {}", p.stream, run.render())));
            }
            if !f.accepted.contains_key(&val) {
                let what = if f.rejected.contains(&val) { "rejected-event-delivered" } else if run.sends.iter().any(|s| s.val == val && s.cancelled) { "cancelled-event-delivered" } else { "invented-event" };
                return Some((format!("{k}/{what}"), format!("stream {} yielded {} which was never accepted; history: {}", p.stream, payload::show(val), run.render())));
            }
        }
    }
    for (val, polls) in &f.delivered {
        if polls.len() > 1 {
            return Some((format!("{k}/duplicated"), format!("{} was yielded {} times (streams {:?}); history: {}", payload::show(*val), polls.len(), polls.iter().map(|p| p.stream).collect::<Vec<_>>(), run.render())));
        }
    }
    for (val, s) in &f.accepted {
        if !f.delivered.contains_key(val) {
            let entry = s.map(|s| entry_name(s.entry)).unwrap_or("prefill");
            return Some((format!("{k}/{entry}/lost"), format!("{} was accepted but never yielded by any stream, not even by the final drain; history: {}", payload::show(*val), run.render())));
        }
    }
    None
}

pub fn entry_name(e: Entry) -> &'static str {
    match e { Entry::Send => "send", Entry::SendWith => "send_with", Entry::SendAsync(_) => "send_with_async", Entry::Reserved => "send_reserved", Entry::Derived => "send_derived" }
}

/// 5.2 + 5.3 for Uni channels: the history of send / poll results is that of one atomic bounded FIFO
pub fn judge_fifo_uni(case: &ChanCase, run: &ChanRun) -> Option<(String, String)> {
    let k = case.kind.short();
    let cap = case.buffer as usize;
    if run.prefill_rejected {
        return Some((format!("{k}/spurious-full"), format!("a freshly created channel rejected send #{} of {} (BUFFER_SIZE {cap}) with nothing consumed yet", run.prefill.len() + 1, case.prefill)));
    }
    let mut ops: Vec<Op> = vec![];
    for s in &run.sends {
        if s.unfinished || s.cancelled { continue; }
        ops.push(Op { thread: s.thread, act: Act::Put { v: s.val, ok: s.accepted }, call: s.call, ret: s.ret });
    }
    for p in &run.polls {
        let act = match p.res { PollRes::Item { val, .. } => Act::Get { got: Some(val) }, PollRes::Pending => Act::Get { got: None }, PollRes::End => Act::Get { got: None } };
        ops.push(Op { thread: p.thread, act, call: p.call, ret: p.ret });
    }
    if ops.iter().filter(|o| !matches!(o.act, Act::Put { ok: false, .. })).count() > 60 { return None; }
    // per-producer order on every stream (cheap, better diagnostics)
    let mut by_consumer: HashMap<u8, Vec<&PollRec>> = HashMap::new();
    for p in run.polls.iter().filter(|p| !p.drain) { by_consumer.entry(p.consumer).or_default().push(p); }
    for (c, polls) in &by_consumer {
        let mut last: HashMap<u8, u32> = HashMap::new();
        for p in polls {
            if let PollRes::Item { val, .. } = p.res {
                if let Some((prod, seq)) = payload::decode(val) {
                    if let Some(prev) = last.get(&prod) { if *prev > seq { return Some((format!("{k}/producer-order"), format!("consumer {c} yielded p{prod}#{seq} after p{prod}#{prev}; history: {}", run.render()))); } }
                    last.insert(prod, seq);
                }
            }
        }
    }
    if !lin::linearizable(&ops, Model::Fifo, FullRule::Ignore, &run.prefill) {
        let sub = diagnose(&ops, &run.prefill);
        return Some((format!("{k}/not-linearizable/{sub}"), format!("no linearization of the send/poll history against a bounded FIFO of capacity {cap}; history: {}", run.render())));
    }
    // 5.3 first rule: rejections. A slot may be taken from the *call* of the send that fills it until the return of the receive
    // (movable) / of the release of its handle (zero-copy).
    let freed_at = |v: u64| -> u64 {
        if case.kind.is_pooled() {
            run.releases.iter().find(|r| r.val == v).map(|r| r.ret).unwrap_or(u64::MAX)
        } else {
            run.polls.iter().find(|p| matches!(p.res, PollRes::Item { val, .. } if val == v)).map(|p| p.ret).unwrap_or(u64::MAX)
        }
    };
    for (i, s) in run.sends.iter().enumerate() {
        if s.accepted || s.unfinished || s.cancelled { continue; }
        let mut occ: Vec<Occupancy> = run.prefill.iter().map(|v| Occupancy { from: 0, to: freed_at(*v) }).collect();
        for (j, o) in run.sends.iter().enumerate() {
            if i == j { continue; }
            if o.accepted { occ.push(Occupancy { from: o.call, to: freed_at(o.val) }); }
            else if o.cancelled { occ.push(Occupancy { from: o.call, to: o.ret }); }
            else if o.unfinished { occ.push(Occupancy { from: o.call, to: u64::MAX }); }
            else { occ.push(Occupancy { from: o.call, to: o.ret }); }
        }
        if !lin::reject_legit(s.call, s.ret, &occ, cap) {
            return Some((format!("{k}/spurious-full"), format!("P{} was answered 'buffer full' for {} over [{},{}] although fewer than {cap} slots could have been taken; history: {}", s.thread, payload::show(s.val), s.call, s.ret, run.render())));
        }
    }
    // never more than BUFFER_SIZE pending
    let mut events: Vec<(u64, i32)> = vec![];
    for s in &run.sends { if s.accepted && !s.unfinished { events.push((s.ret, 1)); } }
    for p in &run.polls { if let PollRes::Item { .. } = p.res { events.push((p.call, -1)); } }
    events.sort();
    let mut pending = run.prefill.len() as i32;
    for (at, d) in events {
        pending += d;
        if pending > cap as i32 { return Some((format!("{k}/over-capacity"), format!("{pending} events pending at instant {at} with BUFFER_SIZE {cap}; history: {}", run.render()))); }
    }
    // pending_items_count at quiescence == what can still be taken out
    let drained = run.polls.iter().filter(|p| p.drain && matches!(p.res, PollRes::Item { .. })).count() as u32;
    if run.pending_at_quiescence != drained {
        return Some((format!("{k}/len-at-quiescence"), format!("pending_items_count() reported {} at quiescence but {} events could still be received; history: {}", run.pending_at_quiescence, drained, run.render())));
    }
    None
}

fn diagnose(hist: &[Op], prefill: &[u64]) -> &'static str {
    let mut puts: HashMap<u64, usize> = HashMap::new();
    for v in prefill { *puts.entry(*v).or_insert(0) += 1; }
    let mut gets: HashMap<u64, usize> = HashMap::new();
    for o in hist {
        match o.act {
            Act::Put { v, ok: true } => *puts.entry(v).or_insert(0) += 1,
            Act::Get { got: Some(v) } => *gets.entry(v).or_insert(0) += 1,
            _ => {},
        }
    }
    if gets.iter().any(|(v, _)| !puts.contains_key(v)) { return "invented"; }
    if gets.iter().any(|(_, n)| *n > 1) { return "duplicated"; }
    if puts.iter().any(|(v, _)| !gets.contains_key(v)) { return "lost"; }
    let without: Vec<Op> = hist.iter().copied().filter(|o| o.act != Act::Get { got: None }).collect();
    if lin::linearizable(&without, Model::Fifo, FullRule::Ignore, prefill) { return "false-empty"; }
    "order"
}

/// C04 for Uni channels: at quiescence no accepted event may sit in the channel while the driven streams are parked
pub fn judge_wakeup_uni(case: &ChanCase, run: &ChanRun) -> Option<(String, String)> {
    let k = case.kind.short();
    let f = Facts::new(run);
    let stuck: Vec<u64> = f.accepted.keys().copied()
        .filter(|v| !f.delivered.get(v).map(|ps| ps.iter().any(|p| !p.drain)).unwrap_or(false))
        .collect();
    if stuck.is_empty() { return None; }
    let parked: Vec<usize> = run.consumers.iter().enumerate().filter(|(_, c)| c.parked_at_quiescence).map(|(i, _)| i).collect();
    if parked.is_empty() { return None; }   // (streams ended / left: other properties)
    // the facts the classifier needs: the stuck event whose send returned last
    // the stuck event at the head of the queue (the first one the final drain obtains) is the one whose wake-up went missing
    let head_val: Option<u64> = run.polls.iter().filter(|p| p.drain).find_map(|p| if let PollRes::Item { val, .. } = p.res { Some(val) } else { None });
    let rec: Option<&SendRec> = head_val.and_then(|v| f.accepted.get(&v).copied().flatten());
    let (entry, s_call, s_ret, s_thread) = match rec { Some(s) => (entry_name(s.entry), s.call, s.ret, s.thread as usize), None => ("prefill", 0, 0, 255) };
    let overlapping_empty_polls: BTreeSet<u8> = run.polls.iter().filter(|p| !p.drain && p.res == PollRes::Pending && p.call < s_ret && s_call < p.ret).map(|p| p.consumer).collect();
    let last_poll_overlaps = parked.iter().any(|&ci| run.polls.iter().filter(|p| !p.drain && p.consumer as usize == ci).last().map(|p| p.call < s_ret && s_call < p.ret).unwrap_or(false));
    let sender_wakes = run.wakes.iter().flatten().filter(|(t, by)| *by == s_thread && *t > s_call && *t < s_ret).count();
    let sig = format!("{k}/{entry}/max_streams={}/streams={}/overlap={}/other={}/sender_wakes={}", case.max_streams, case.consumers.len(),
                      if last_poll_overlaps { "y" } else { "n" }, if overlapping_empty_polls.len() >= 2 { "y" } else { "n" }, if sender_wakes == 0 { "0" } else { "1+" });
    Some((sig, format!("lost wake-up: {} accepted event(s) {:?} still sit in the channel at quiescence while stream(s) {:?} are parked with no wake owed; history: {}",
                       stuck.len(), stuck.iter().map(|v| payload::show(*v)).collect::<Vec<_>>(), parked, run.render())))
}

pub fn finish(case: &ChanCase, run: &ChanRun, mut classes: Vec<String>, nontrivial: bool, judged: Option<(String, String)>) -> RunReport {
    let fp = fingerprint(case, run);
    let summary = run.render();
    if let Some(v) = end_state_verdict(case, run) {
        let nt = matches!(v, Verdict::Violation { .. });
        return RunReport { verdict: v, nontrivial: nt, classes, fingerprint: fp, trace: Some(run.trace.clone()), summary };
    }
    if run.prefill_rejected {
        // the scenario's precondition did not hold (an empty channel rejected one of fewer than BUFFER_SIZE sends): that is C02 / C16 material
        let strict = judged.as_ref().map(|(s, _)| s.contains("spurious-full")).unwrap_or(false);
        if !strict {
            return RunReport { verdict: Verdict::Inconclusive("prefill-rejected".into()), nontrivial: false, classes, fingerprint: fp, trace: Some(run.trace.clone()), summary };
        }
    }
    if run.sends.iter().any(|s| !s.accepted && !s.unfinished && !s.cancelled) { classes.push("rejected-send".into()); }
    if run.polls.iter().any(|p| !p.drain && p.res == PollRes::Pending) { classes.push("parked".into()); }
    if run.inside > 0 { classes.push("overlap".into()); }
    let total: usize = run.sends.iter().filter(|s| s.accepted).count() + run.prefill.len();
    if total > case.buffer as usize { classes.push("buffer-wrapped".into()); }
    let verdict = match judged { None => Verdict::Pass, Some((signature, detail)) => Verdict::Violation { signature, detail } };
    RunReport { verdict, nontrivial, classes, fingerprint: fp, trace: Some(run.trace.clone()), summary }
}

// ---------------------------------------------------------------------------------------------------------------------
// C01

pub struct C01Uni;
impl Property for C01Uni {
    type Case = ChanCase;
    fn part(&self) -> &'static str { "uni-delivery-sched" }
    fn strategy(&self, _tier: Tier) -> BoxedStrategy<ChanCase> {
        case_strategy(Gen { kinds: &UNI_KINDS, max_streams: &[1, 2, 4, 8, 16], buffers: &[2, 4, 8, 16, 64], max_producers: 3, max_ops: 4, max_consumers: 3, retry: true, fresh_wakers: false, origins: true, prefill: true, crossbeam_setters_may_wait: true, ..Default::default() })
    }
    fn decode(&self, u: &mut arbitrary::Unstructured<'_>) -> Option<ChanCase> { crate::props::uni::decode_chan(u, &Gen { kinds: &UNI_KINDS, max_streams: &[1, 2, 4, 8, 16], buffers: &[2, 4, 8, 16, 64], max_producers: 3, max_ops: 4, max_consumers: 3, retry: true, fresh_wakers: false, origins: true, prefill: true, crossbeam_setters_may_wait: true, ..Default::default() }) }
    fn cases(&self, tier: Tier) -> u32 { match tier { Tier::Quick => 24_000, Tier::Thorough => 240_000 } }
    fn run(&self, case: &ChanCase) -> RunReport {
        let run = execute(case, Epilogue { drain: true, ..Default::default() });
        let judged = if run.end == EndState::Completed { judge_delivery_uni(case, &run) } else { None };
        let nontrivial = run.inside > 0 || run.sends.iter().any(|s| !s.accepted);
        finish(case, &run, base_classes(case), nontrivial, judged)
    }
    fn rule(&self) -> String {
        "generated: Uni kind (5) x (BUFFER_SIZE, MAX_STREAMS) in {2,4,8}x{1,2,4} x counter origin {0, just below 2^32} x prefill x 1..3 producer scripts of 1..4 sends (send | send_with | send_with_async with 0..2 suspensions | reserve+send_reserved; single attempt or bounded retry) x 1..3 driven consumer streams (hold 0..2 steps) x schedule (sparse preemptions | PCT | random walk); \
         oracle: delivery ledger after a final drain -- every accepted event yielded exactly once by exactly one stream, payload intact, nothing invented, rejected events never yielded and handed back untouched (setter un-invoked, still the same closure), accepted setters ran exactly once; \
         non-trivial: a thread was switched out inside a send/poll, or a send was rejected; distinct by (scenario, realised trace)".into()
    }
    fn schedule_mut<'a>(&self, case: &'a mut ChanCase) -> Option<&'a mut Schedule> { Some(&mut case.schedule) }
}

// C02 (channel level)
pub struct C02Uni;
impl Property for C02Uni {
    type Case = ChanCase;
    fn part(&self) -> &'static str { "uni-fifo-sched" }
    fn strategy(&self, _tier: Tier) -> BoxedStrategy<ChanCase> {
        case_strategy(Gen { kinds: &UNI_KINDS, max_streams: &[1, 2, 4], buffers: &[2, 4], max_producers: 3, max_ops: 3, max_consumers: 3, retry: false, fresh_wakers: false, origins: true, prefill: true, ..Default::default() })
    }
    fn decode(&self, u: &mut arbitrary::Unstructured<'_>) -> Option<ChanCase> { crate::props::uni::decode_chan(u, &Gen { kinds: &UNI_KINDS, max_streams: &[1, 2, 4], buffers: &[2, 4], max_producers: 3, max_ops: 3, max_consumers: 3, retry: false, fresh_wakers: false, origins: true, prefill: true, ..Default::default() }) }
    fn cases(&self, tier: Tier) -> u32 { match tier { Tier::Quick => 18_000, Tier::Thorough => 200_000 } }
    fn run(&self, case: &ChanCase) -> RunReport {
        let run = execute(case, Epilogue { drain: true, ..Default::default() });
        let judged = if run.end == EndState::Completed { judge_fifo_uni(case, &run) } else { None };
        let neg = run.sends.iter().any(|s| !s.accepted) || run.polls.iter().any(|p| !p.drain && p.res == PollRes::Pending);
        finish(case, &run, base_classes(case), run.inside > 0 && neg, judged)
    }
    fn rule(&self) -> String {
        "generated: as C01 with BUFFER_SIZE in {2,4}, bursts around full/empty (prefill 0,1,B-1,B), single-attempt sends; \
         oracle: Wing-Gong linearizability of {send Ok, poll Some(v), poll nothing} vs a FIFO (final drain included) + interval rule for every 'buffer full' answer (slot taken from the call of a send until the return of the receive [movable] / of the handle release [zero-copy]; other sends in progress count) + #sends-returned-Ok - #receives-started <= BUFFER_SIZE at every instant + pending_items_count at quiescence + per-producer order per stream; \
         non-trivial: a thread was switched out inside an operation AND a 'full' or 'nothing' answer occurred".into()
    }
    fn schedule_mut<'a>(&self, case: &'a mut ChanCase) -> Option<&'a mut Schedule> { Some(&mut case.schedule) }
}

// C04 (Uni part)
pub struct C04Uni;
impl Property for C04Uni {
    type Case = ChanCase;
    fn part(&self) -> &'static str { "uni-wakeup-sched" }
    fn strategy(&self, _tier: Tier) -> BoxedStrategy<ChanCase> {
        case_strategy(Gen { kinds: &UNI_KINDS, max_streams: &[1, 2], buffers: &[2, 4, 8], max_producers: 3, max_ops: 3, max_consumers: 2, retry: true, fresh_wakers: true, origins: false, prefill: true, ..Default::default() })
    }
    fn decode(&self, u: &mut arbitrary::Unstructured<'_>) -> Option<ChanCase> { crate::props::uni::decode_chan(u, &Gen { kinds: &UNI_KINDS, max_streams: &[1, 2], buffers: &[2, 4, 8], max_producers: 3, max_ops: 3, max_consumers: 2, retry: true, fresh_wakers: true, origins: false, prefill: true, ..Default::default() }) }
    fn cases(&self, tier: Tier) -> u32 { match tier { Tier::Quick => 20_000, Tier::Thorough => 240_000 } }
    fn run(&self, case: &ChanCase) -> RunReport {
        let run = execute(case, Epilogue { drain: true, ..Default::default() });
        let judged = if run.end == EndState::Completed { judge_wakeup_uni(case, &run) } else { None };
        // the consumer parked at least once while a send was in progress
        let nontrivial = run.polls.iter().any(|p| !p.drain && p.res == PollRes::Pending && run.sends.iter().any(|s| s.call < p.ret && p.call < s.ret));
        let mut classes = base_classes(case);
        if case.consumers.iter().any(|c| !c.fresh_waker_at.is_empty()) { classes.push("fresh-waker".into()); }
        classes.push(format!("pending-before:{}", if case.prefill == 0 { "0" } else if case.prefill <= case.max_streams { "1..MAX_STREAMS" } else { ">MAX_STREAMS" }));
        finish(case, &run, classes, nontrivial, judged)
    }
    fn rule(&self) -> String {
        "generated: Uni kind (5) x BUFFER_SIZE {2,4,8} x MAX_STREAMS {1,2} with 1..MAX_STREAMS driven streams (poll, park on Pending, re-poll when the waker is invoked; occasionally switching to a fresh waker) x 0..B events pending beforehand x 1..3 producers over every entry point x schedule; \
         oracle (decided, no timeout): when nothing can run any more, an accepted event that no stream has yielded while the streams are parked with no wake owed is a lost wake-up; \
         non-trivial: a poll answered Pending while a send was in progress".into()
    }
    fn schedule_mut<'a>(&self, case: &'a mut ChanCase) -> Option<&'a mut Schedule> { Some(&mut case.schedule) }
}

#[allow(dead_code)]
pub fn unused() { let _ = (&ALL_KINDS, &MULTI_KINDS); }

// ---------------------------------------------------------------------------------------------------------------------
// Multi: C03 (fan-out to a fixed listener set) and the Multi part of C04

/// per listener: exactly the accepted events, once each, per-producer order, intact; same allocation across listeners
pub fn judge_delivery_multi(case: &ChanCase, run: &ChanRun) -> Option<(String, String)> {
    let k = case.kind.short();
    let f = Facts::new(run);
    for s in &run.sends {
        if !s.contract_ok && !s.unfinished {
            let what = if s.accepted { "accepted-setter-not-run-exactly-once" } else { "rejected-input-not-handed-back-untouched" };
            return Some((format!("{k}/{}/{what}", entry_name(s.entry)), format!("send of {} by P{}: {}; history: {}", payload::show(s.val), s.thread, what, run.render())));
        }
    }
    let mut addr_of: HashMap<u64, (usize, u8)> = HashMap::new();
    for ci in 0..run.consumers.len() {
        let polls: Vec<&PollRec> = run.polls.iter().filter(|p| p.consumer as usize == ci).collect();
        let mut seen: BTreeMap<u64, u32> = BTreeMap::new();
        let mut last: HashMap<u8, (u32, u64)> = HashMap::new();
        for p in &polls {
            if let PollRes::Item { val, intact, addr } = p.res {
                if !intact || payload::decode(val).is_none() {
                    return Some((format!("{k}/corrupt-payload"), format!("listener {ci} yielded a corrupted payload {val:#x}; history: {}", run.render())));
                }
                if !f.accepted.contains_key(&val) {
                    let what = if f.rejected.contains(&val) { "rejected-event-delivered" } else { "invented-event" };
                    return Some((format!("{k}/{what}"), format!("listener {ci} yielded {} which was never accepted; history: {}", payload::show(val), run.render())));
                }
                *seen.entry(val).or_insert(0) += 1;
                // a producer's send order: A before B iff A's send had returned before B's was called (split async sends overlap)
                let (prod, seq) = payload::decode(val).unwrap();
                let my_call = f.accepted.get(&val).copied().flatten().map(|s| s.call).unwrap_or(0);
                let my_ret = f.accepted.get(&val).copied().flatten().map(|s| s.ret).unwrap_or(0);
                if let Some((prev_seq, prev_call)) = last.get(&prod) { if my_ret < *prev_call { return Some((format!("{k}/producer-order"), format!("listener {ci} yielded p{prod}#{seq} after p{prod}#{prev_seq} although it was sent (and its send had returned) before; history: {}", run.render()))); } }
                let _ = seq;
                let e = last.entry(prod).or_insert((seq, my_call));
                if my_call >= e.1 { *e = (seq, my_call); }
                if !case.kind.is_mmap() || true {
                    match addr_of.get(&val) {
                        Some((a, other)) if *a != addr => return Some((format!("{k}/not-the-same-allocation"), format!("listeners {other} and {ci} observed {} at different addresses ({a:#x} vs {addr:#x}); history: {}", payload::show(val), run.render()))),
                        None => { addr_of.insert(val, (addr, ci as u8)); },
                        _ => {},
                    }
                }
            }
        }
        if let Some((val, n)) = seen.iter().find(|(_, n)| **n > 1) {
            return Some((format!("{k}/duplicated"), format!("listener {ci} yielded {} {} times; history: {}", payload::show(*val), n, run.render())));
        }
        for (val, s) in &f.accepted {
            if !seen.contains_key(val) {
                let entry = s.map(|s| entry_name(s.entry)).unwrap_or("prefill");
                return Some((format!("{k}/{entry}/lost"), format!("{} was accepted but listener {ci} never yielded it, not even in the final drain; history: {}", payload::show(*val), run.render())));
            }
        }
    }
    None
}

pub fn judge_wakeup_multi(case: &ChanCase, run: &ChanRun) -> Option<(String, String)> {
    let k = case.kind.short();
    let f = Facts::new(run);
    for (ci, c) in run.consumers.iter().enumerate() {
        if !c.parked_at_quiescence { continue; }
        let got: BTreeSet<u64> = run.polls.iter().filter(|p| !p.drain && p.consumer as usize == ci).filter_map(|p| if let PollRes::Item { val, .. } = p.res { Some(val) } else { None }).collect();
        let stuck: Vec<u64> = f.accepted.keys().copied().filter(|v| !got.contains(v)).collect();
        if stuck.is_empty() { continue; }
        let head_val: Option<u64> = run.polls.iter().filter(|p| p.drain && p.consumer as usize == ci).find_map(|p| if let PollRes::Item { val, .. } = p.res { Some(val) } else { None });
        let rec: Option<&SendRec> = head_val.and_then(|v| f.accepted.get(&v).copied().flatten());
        let (entry, s_call, s_ret, s_thread) = match rec { Some(s) => (entry_name(s.entry), s.call, s.ret, s.thread as usize), None => ("prefill", 0, 0, 255) };
        let last_poll_overlaps = run.polls.iter().filter(|p| !p.drain && p.consumer as usize == ci).last().map(|p| p.call < s_ret && s_call < p.ret).unwrap_or(false);
        let sender_wakes = run.wakes[ci].iter().filter(|(t, by)| *by == s_thread && *t > s_call && *t < s_ret).count();
        let sig = format!("{k}/{entry}/max_streams={}/listeners={}/overlap={}/sender_wakes={}", case.max_streams, case.consumers.len(),
                          if last_poll_overlaps { "y" } else { "n" }, if sender_wakes == 0 { "0" } else { "1+" });
        return Some((sig, format!("lost wake-up: listener {ci} is parked with no wake owed while {} accepted event(s) {:?} sit in its queue; history: {}",
                                  stuck.len(), stuck.iter().map(|v| payload::show(*v)).collect::<Vec<_>>(), run.render())));
    }
    None
}

pub struct C03Multi;
impl Property for C03Multi {
    type Case = ChanCase;
    fn part(&self) -> &'static str { "multi-fanout-sched" }
    fn strategy(&self, _tier: Tier) -> BoxedStrategy<ChanCase> {
        case_strategy(Gen { kinds: &MULTI_KINDS, max_streams: &[1, 2, 4, 8, 16], buffers: &[2, 4, 8, 16, 64], max_producers: 3, max_ops: 3, max_consumers: 3, retry: true, fresh_wakers: false, origins: true, prefill: true, ..Default::default() })
    }
    fn decode(&self, u: &mut arbitrary::Unstructured<'_>) -> Option<ChanCase> { crate::props::uni::decode_chan(u, &Gen { kinds: &MULTI_KINDS, max_streams: &[1, 2, 4, 8, 16], buffers: &[2, 4, 8, 16, 64], max_producers: 3, max_ops: 3, max_consumers: 3, retry: true, fresh_wakers: false, origins: true, prefill: true, ..Default::default() }) }
    fn cases(&self, tier: Tier) -> u32 { match tier { Tier::Quick => 24_000, Tier::Thorough => 240_000 } }
    fn run(&self, case: &ChanCase) -> RunReport {
        let run = execute(case, Epilogue { drain: true, ..Default::default() });
        let judged = if run.end == EndState::Completed { judge_delivery_multi(case, &run) } else { None };
        let nontrivial = run.inside > 0 && (case.consumers.len() >= 2 || case.producers.len() >= 2);
        let mut classes = base_classes(case);
        classes.push(format!("listeners:{}", case.consumers.len()));
        finish(case, &run, classes, nontrivial, judged)
    }
    fn rule(&self) -> String {
        "generated: Multi kind (6: arc atomic/full-sync/crossbeam, ogre_arc atomic/full-sync, mmap log) x (BUFFER_SIZE, MAX_STREAMS) x counter origin x 1..min(MAX_STREAMS,3) listeners created before the first send and kept to the end x 1..3 producers (send | send_with | send_with_async | send_derived [arc] | reserve+send_reserved [ogre_arc]) x schedule; the Arc kinds never get more events than BUFFER_SIZE (they wait, by documented design, when a listener queue is full); \
         oracle: per listener the yielded multiset equals the accepted set (final drain included), per-producer order, payload intact, nothing invented; across listeners the same event has the same payload address (same allocation); rejected inputs handed back untouched; \
         non-trivial: a thread was switched out inside an operation with >= 2 listeners or >= 2 producers".into()
    }
    fn schedule_mut<'a>(&self, case: &'a mut ChanCase) -> Option<&'a mut Schedule> { Some(&mut case.schedule) }
}

pub struct C04Multi;
impl Property for C04Multi {
    type Case = ChanCase;
    fn part(&self) -> &'static str { "multi-wakeup-sched" }
    fn strategy(&self, _tier: Tier) -> BoxedStrategy<ChanCase> {
        case_strategy(Gen { kinds: &MULTI_KINDS, max_streams: &[1, 2], buffers: &[2, 4, 8], max_producers: 3, max_ops: 3, max_consumers: 2, retry: true, fresh_wakers: true, origins: false, prefill: true, ..Default::default() })
    }
    fn decode(&self, u: &mut arbitrary::Unstructured<'_>) -> Option<ChanCase> { crate::props::uni::decode_chan(u, &Gen { kinds: &MULTI_KINDS, max_streams: &[1, 2], buffers: &[2, 4, 8], max_producers: 3, max_ops: 3, max_consumers: 2, retry: true, fresh_wakers: true, origins: false, prefill: true, ..Default::default() }) }
    fn cases(&self, tier: Tier) -> u32 { match tier { Tier::Quick => 16_000, Tier::Thorough => 200_000 } }
    fn run(&self, case: &ChanCase) -> RunReport {
        let run = execute(case, Epilogue { drain: true, ..Default::default() });
        let judged = if run.end == EndState::Completed { judge_wakeup_multi(case, &run) } else { None };
        let nontrivial = run.polls.iter().any(|p| !p.drain && p.res == PollRes::Pending && run.sends.iter().any(|s| s.call < p.ret && p.call < s.ret));
        let mut classes = base_classes(case);
        if case.consumers.iter().any(|c| !c.fresh_waker_at.is_empty()) { classes.push("fresh-waker".into()); }
        finish(case, &run, classes, nontrivial, judged)
    }
    fn rule(&self) -> String {
        "generated: Multi kind (6) x BUFFER_SIZE {2,4,8} x MAX_STREAMS {1,2} with 1..MAX_STREAMS driven listeners x events pending beforehand x 1..3 producers over every entry point x schedule; \
         oracle (decided, no timeout): at quiescence a listener that is parked with no wake owed while an accepted event it never yielded sits in its queue is a lost wake-up; \
         non-trivial: a poll answered Pending while a send was in progress".into()
    }
    fn schedule_mut<'a>(&self, case: &'a mut ChanCase) -> Option<&'a mut Schedule> { Some(&mut case.schedule) }
}
