//! Oracles over the shared channel scenario for the life-cycle properties:
//! C05 (payload destruction / storage reuse, controlled-schedule part), C07 (cancel_all), C16 (rejected sends, concurrent part),
//! C17 (listener churn during sends), C20 (suspended async sends).

use crate::chan::{ChanKind, Entry, ALL_KINDS, MULTI_KINDS, UNI_KINDS};
use crate::driver::{Property, RunReport, Tier, Verdict};
use crate::payload;
use crate::props::chanrun::*;
use crate::props::uni::{self, case_strategy, entry_name, finish, Facts, Gen};
use crate::sched::{EndState, Schedule};
use proptest::prelude::*;
use std::collections::{BTreeMap, BTreeSet};

// ---------------------------------------------------------------------------------------------------------------------
// C07: cancel_all_streams() ends every stream, parked or not

pub fn judge_cancel_all(case: &ChanCase, run: &ChanRun) -> Option<(String, String)> {
    let k = case.kind.short();
    let Some(cancel) = run.cancels.first() else { return None };
    let f = Facts::new(run);
    for (ci, c) in run.consumers.iter().enumerate() {
        // state of the target when the request landed
        let my_polls: Vec<&PollRec> = run.polls.iter().filter(|p| !p.drain && p.consumer as usize == ci).collect();
        let state = if my_polls.iter().all(|p| p.call > cancel.ret) { "before-first-poll" }
                    else if my_polls.iter().any(|p| p.call < cancel.ret && cancel.call < p.ret) { "inside-poll" }
                    else if my_polls.iter().filter(|p| p.ret < cancel.call).last().map(|p| p.res == PollRes::Pending).unwrap_or(false) { "parked" }
                    else { "holding-or-between-polls" };
        // (a listener that left by itself -- dropped its stream after its quota of items -- is no longer there to be ended)
        if !c.ended && c.dropped_at.is_none() {
            let what = if c.parked_at_quiescence { "parked-not-ended" } else { "not-ended" };
            return Some((format!("{k}/{what}/target={state}"), format!("cancel_all_streams() returned at {} but stream of consumer {ci} never answered end-of-stream ({what}); history: {}", cancel.ret, run.render())));
        }
        // after the end-of-stream answer nothing may be left that was buffered before the stream looked (a None with events inside = events discarded silently is C06's business; here: no yield after End)
        let end_at = my_polls.iter().find(|p| p.res == PollRes::End).map(|p| p.ret).unwrap_or(u64::MAX);
        if my_polls.iter().any(|p| matches!(p.res, PollRes::Item { .. }) && p.call > end_at) {
            return Some((format!("{k}/yield-after-end"), format!("stream of consumer {ci} yielded an event after having answered end-of-stream; history: {}", run.render())));
        }
    }
    // whatever was yielded is sane (nothing invented / duplicated per stream kind)
    for p in &run.polls {
        if let PollRes::Item { val, intact, .. } = p.res {
            if !intact || !f.accepted.contains_key(&val) {
                return Some((format!("{k}/bad-payload-after-cancel"), format!("consumer {} yielded {} (intact={intact}) which was never accepted; history: {}", p.consumer, payload::show(val), run.render())));
            }
        }
    }
    if case.kind.is_uni() {
        for (val, polls) in &f.delivered { if polls.len() > 1 { return Some((format!("{k}/duplicated"), format!("{} yielded {} times; history: {}", payload::show(*val), polls.len(), run.render()))); } }
    }
    if let Some(n) = run.running_after_drop { if n != 0 { return Some((format!("{k}/running-count-after-drop"), format!("every stream was dropped but running_streams_count() = {n}; history: {}", run.render()))); } }
    if let Some((ok, n)) = run.recreate {
        if !ok { return Some((format!("{k}/ids-not-reusable"), format!("after cancelling and dropping every stream, creating MAX_STREAMS={} streams again panicked; history: {}", case.max_streams, run.render()))); }
        if n != case.max_streams as u32 { return Some((format!("{k}/running-count-after-recreate"), format!("{} streams re-created but running_streams_count() = {n}", case.max_streams))); }
    }
    None
}

pub struct C07CancelAll;
impl Property for C07CancelAll {
    type Case = ChanCase;
    fn part(&self) -> &'static str { "cancel-all-sched" }
    fn strategy(&self, _tier: Tier) -> BoxedStrategy<ChanCase> {
        case_strategy(Gen { kinds: &ALL_KINDS, max_streams: &[1, 2, 4, 8, 16], buffers: &[2, 4, 8, 16, 64], max_producers: 2, max_ops: 3, max_consumers: 3, retry: false, fresh_wakers: true, prefill: true, canceller: true, drop_on_end: true, origins: true, leavers: true, ..Default::default() })
            // (the Arc kinds block the sender -- sleeping -- when a listener's queue is full; a listener dropped during the run can be fed for ever by
            //  senders that raced with its removal [known finding R8]: there the streams are dropped after the run only)
            .prop_map(|mut c| { if c.kind.waits_when_full() { for k in c.consumers.iter_mut() { k.drop_on_end = false; } } c }).boxed()
    }
    fn decode(&self, u: &mut arbitrary::Unstructured<'_>) -> Option<ChanCase> {
        let mut c = crate::props::uni::decode_chan(u, &Gen { kinds: &ALL_KINDS, max_streams: &[1, 2, 4, 8, 16], buffers: &[2, 4, 8, 16, 64], max_producers: 2, max_ops: 3, max_consumers: 3, retry: false, fresh_wakers: true, prefill: true, canceller: true, drop_on_end: true, origins: true, leavers: true, ..Default::default() })?;
        if c.kind.waits_when_full() { for k in c.consumers.iter_mut() { k.drop_on_end = false; } }
        Some(c)
    }
    fn cases(&self, tier: Tier) -> u32 { match tier { Tier::Quick => 24_000, Tier::Thorough => 240_000 } }
    fn run(&self, case: &ChanCase) -> RunReport {
        let run = execute(case, Epilogue { drain: true, recreate_probe: true, ..Default::default() });
        let judged = if run.end == EndState::Completed { judge_cancel_all(case, &run) } else { None };
        let mut classes = base_classes(case);
        let mut nontrivial = false;
        if let Some(cancel) = run.cancels.first() {
            for ci in 0..run.consumers.len() {
                let my: Vec<&PollRec> = run.polls.iter().filter(|p| !p.drain && p.consumer as usize == ci).collect();
                if my.iter().any(|p| p.call < cancel.ret && cancel.call < p.ret) { classes.push("target:inside-poll".into()); nontrivial = true; }
                else if my.iter().filter(|p| p.ret < cancel.call).last().map(|p| p.res == PollRes::Pending).unwrap_or(false) { classes.push("target:parked".into()); nontrivial = true; }
                else if my.iter().all(|p| p.call > cancel.ret) { classes.push("target:before-first-poll".into()); }
                else { classes.push("target:holding-or-between-polls".into()); }
            }
        }
        classes.sort(); classes.dedup();
        finish(case, &run, classes, nontrivial, judged)
    }
    fn rule(&self) -> String {
        "generated: any of the 11 channel kinds x configuration x 1..3 driven streams (all created before the run; some leave by themselves -- drop their stream -- after 1..3 items, possibly while the request is being served) x 1..2 producers x a canceller thread calling cancel_all_streams() after 0..11 steps x schedule; \
         oracle: at quiescence every stream has answered end-of-stream (a stream still parked is a violation -- decided, no timeout), nothing is yielded after end-of-stream, yielded payloads are accepted ones (Uni: at most once), \
         after dropping the streams running_streams_count()==0 and MAX_STREAMS streams can be created again (ids reusable, count exact); \
         non-trivial: the request landed while a target was inside poll_next or parked".into()
    }
    fn schedule_mut<'a>(&self, case: &'a mut ChanCase) -> Option<&'a mut Schedule> { Some(&mut case.schedule) }
}

// ---------------------------------------------------------------------------------------------------------------------
// C16 (concurrent part): several producers retrying against one slow consumer

pub struct C16Retry;
impl Property for C16Retry {
    type Case = ChanCase;
    fn part(&self) -> &'static str { "rejected-send-sched" }
    fn strategy(&self, _tier: Tier) -> BoxedStrategy<ChanCase> {
        case_strategy(Gen { kinds: &UNI_KINDS, max_streams: &[1, 2], buffers: &[2, 4], max_producers: 3, max_ops: 3, max_consumers: 1, retry: true, prefill: true, origins: true, ..Default::default() })
            .prop_map(|mut c| { for cons in c.consumers.iter_mut() { cons.hold = cons.hold.max(1); } c.prefill = c.prefill.max(c.buffer - 1); uni::sanitize(c) })
            .boxed()
    }
    fn decode(&self, u: &mut arbitrary::Unstructured<'_>) -> Option<ChanCase> { crate::props::uni::decode_chan(u, &Gen { kinds: &UNI_KINDS, max_streams: &[1, 2], buffers: &[2, 4], max_producers: 3, max_ops: 3, max_consumers: 1, retry: true, prefill: true, origins: true, ..Default::default() }) }
    fn cases(&self, tier: Tier) -> u32 { match tier { Tier::Quick => 15_000, Tier::Thorough => 150_000 } }
    fn run(&self, case: &ChanCase) -> RunReport {
        let run = execute(case, Epilogue { drain: true, capacity_probe: true, ..Default::default() });
        let k = case.kind.short();
        let mut judged = None;
        if run.end == EndState::Completed {
            judged = uni::judge_delivery_uni(case, &run).or_else(|| uni::judge_fifo_uni(case, &run).filter(|(s, _)| s.contains("spurious-full") || s.contains("over-capacity")));
            if judged.is_none() {
                // a rejected call returns promptly: a bounded number of its own steps
                if let Some(s) = run.sends.iter().find(|s| !s.accepted && !s.unfinished && s.own_steps > 60) {
                    judged = Some((format!("{k}/{}/rejection-not-prompt", entry_name(s.entry)), format!("the rejected send of {} took {} scheduling points of its own thread while no other thread was inside an operation (nothing to wait for); history: {}", payload::show(s.val), s.own_steps, run.render())));
                }
            }
            if judged.is_none() {
                if let Some(n) = run.capacity_probe {
                    if n != case.buffer as u32 {
                        judged = Some((format!("{k}/capacity-after-cycles"), format!("after everything was received and released, {n} of BUFFER_SIZE+1={} further sends were accepted (expected exactly {}); history: {}", case.buffer + 1, case.buffer, run.render())));
                    }
                }
            }
        }
        let retried_ok = run.sends.iter().any(|s| !s.accepted && run.sends.iter().any(|o| o.val == s.val && o.accepted));
        let mut classes = base_classes(case);
        if retried_ok { classes.push("rejected-then-accepted".into()); }
        let max_rej = run.sends.iter().filter(|s| !s.accepted).map(|s| s.own_steps).max().unwrap_or(0);
        classes.push(format!("rejected-own-steps:{}", match max_rej { 0 => "none", 1..=10 => "1-10", 11..=20 => "11-20", 21..=40 => "21-40", _ => ">40" }));
        finish(case, &run, classes, retried_ok, judged)
    }
    fn rule(&self) -> String {
        "generated: Uni kind (5) x BUFFER_SIZE {2,4} x buffer (almost) full beforehand x 1..3 producers re-sending the handed-back payload / setter (bounded retry, other threads run in between) x one slow consumer (holds each item >= 1 step) x schedule; \
         oracle: delivery ledger (a rejected event is never yielded, the handed-back input is the one passed in, un-invoked) + interval rule for every 'buffer full' answer + never more than BUFFER_SIZE pending + a rejected call takes a bounded number of its own steps (<= 60 scheduling points executed while no other thread is inside an operation: waiting for a peer's operation in progress is not counted) + after the final drain exactly BUFFER_SIZE of BUFFER_SIZE+1 sends are accepted; \
         non-trivial: a send was rejected and its retry accepted".into()
    }
    fn schedule_mut<'a>(&self, case: &'a mut ChanCase) -> Option<&'a mut Schedule> { Some(&mut case.schedule) }
}

// ---------------------------------------------------------------------------------------------------------------------
// C20: a suspended send_with_async never blocks anybody else

pub fn judge_suspended(case: &ChanCase, run: &ChanRun) -> Option<(String, String)> {
    let k = case.kind.short();
    let f = Facts::new(run);
    // ledger: everything accepted is delivered exactly once (Uni) / to every listener (Multi); a send that never completed is not delivered
    if case.kind.is_uni() {
        if let Some(v) = uni::judge_delivery_uni(case, run) { return Some(v); }
    } else if let Some(v) = uni::judge_delivery_multi(case, run) { return Some(v); }
    for s in run.sends.iter().filter(|s| s.unfinished) {
        if f.delivered.contains_key(&s.val) {
            return Some((format!("{k}/unfinished-send-delivered"), format!("{} was yielded although its send_with_async never completed; history: {}", payload::show(s.val), run.render())));
        }
    }
    // events accepted meanwhile are delivered without waiting for the suspended one: at quiescence nothing accepted may still be inside
    let wake = if case.kind.is_uni() { uni::judge_wakeup_uni(case, run) } else { uni::judge_wakeup_multi(case, run) };
    if let Some((sig, detail)) = wake {
        if run.sends.iter().any(|s| s.unfinished) {
            return Some((format!("{k}/accepted-event-waits-for-suspended-send"), format!("{detail} [signature of the stuck event: {sig}]")));
        }
        return Some((format!("{k}/undelivered-at-quiescence"), detail));
    }
    None
}

pub struct C20Suspended;
impl Property for C20Suspended {
    type Case = ChanCase;
    fn part(&self) -> &'static str { "suspended-async-sched" }
    fn strategy(&self, _tier: Tier) -> BoxedStrategy<ChanCase> {
        static KINDS: [ChanKind; 10] = [ChanKind::UniMoveAtomic, ChanKind::UniMoveFullSync, ChanKind::UniMoveCrossbeam, ChanKind::UniZcAtomic, ChanKind::UniZcFullSync,
                                        ChanKind::MultiArcAtomic, ChanKind::MultiArcFullSync, ChanKind::MultiArcCrossbeam, ChanKind::MultiOgreAtomic, ChanKind::MultiOgreFullSync];
        case_strategy(Gen { kinds: &KINDS, max_streams: &[1, 2], buffers: &[4, 8], max_producers: 3, max_ops: 5, max_consumers: 2, async_ops: true, origins: true, ..Default::default() })
            .prop_map(|mut c| {
                // at least one suspended send in every case
                if !c.producers.iter().flatten().any(|o| matches!(o, POp::AsyncBegin(_))) { c.producers[0].insert(0, POp::AsyncBegin(2)); }
                uni::sanitize(c)
            })
            .boxed()
    }
    fn cases(&self, tier: Tier) -> u32 { match tier { Tier::Quick => 24_000, Tier::Thorough => 240_000 } }
    fn run(&self, case: &ChanCase) -> RunReport {
        let run = execute(case, Epilogue { drain: true, ..Default::default() });
        let k = case.kind.short();
        let mut classes = base_classes(case);
        classes.push(format!("suspended-for-ever:{}", !case.finish_async));
        let suspended: Vec<&SendRec> = run.sends.iter().filter(|s| matches!(s.entry, Entry::SendAsync(n) if n > 0)).collect();
        let nontrivial = suspended.iter().any(|a| run.sends.iter().any(|o| o.val != a.val && o.call > a.call && o.ret < a.ret && !o.unfinished)
                                                   || run.polls.iter().any(|p| !p.drain && p.call > a.call && p.ret < a.ret));
        match &run.end {
            EndState::Stall { stuck, .. } => {
                let ops: BTreeSet<String> = stuck.iter().map(|(t, _)| run.cur_ops.get(*t).cloned().unwrap_or_default()).collect();
                let op = ops.iter().next().cloned().unwrap_or_default();
                let fp = fingerprint(case, &run);
                let any_suspended = run.sends.iter().any(|s| s.unfinished && matches!(s.entry, Entry::SendAsync(_)));
                let sig = if any_suspended { format!("{k}/blocked-behind-suspended-send/{op}") } else { format!("{k}/stall/{op}") };
                return RunReport { verdict: Verdict::Violation { signature: sig, detail: format!("while a send_with_async stays suspended, thread(s) {:?} (executing {:?}) spin on an operation that cannot succeed until the suspended send completes; history: {}", stuck, ops, run.render()) },
                                   nontrivial: true, classes, fingerprint: fp, trace: Some(run.trace.clone()), summary: run.render() };
            },
            _ => {},
        }
        let judged = if run.end == EndState::Completed { judge_suspended(case, &run) } else { None };
        finish(case, &run, classes, nontrivial, judged)
    }
    fn rule(&self) -> String {
        "generated: every Uni / Multi kind implementing send_with_async (10; the mmap log's is todo!()) x BUFFER_SIZE {4,8} x MAX_STREAMS {1,2} x 1..3 producer scripts over {begin an async send whose setter suspends 1..3 times, resume the oldest one once, send, send_with, reserve / send_reserved, pending_items_count} x 'suspended sends are eventually driven to completion' | 'left suspended for ever' x 1..2 driven streams x schedule; \
         oracle: no stall verdict (a thread re-executing an operation that can only succeed once the suspended send completes is decided by the scheduler, not timed); every send that completed is delivered (exactly once; Multi: to every listener) and at quiescence none of them is still inside the channel; a send that never completed is not delivered; \
         non-trivial: another operation ran to completion between two polls of a suspended setter".into()
    }
    fn schedule_mut<'a>(&self, case: &'a mut ChanCase) -> Option<&'a mut Schedule> { Some(&mut case.schedule) }
}

// ---------------------------------------------------------------------------------------------------------------------
// C17: listener churn while a producer is sending

pub fn judge_churn(case: &ChanCase, run: &ChanRun) -> Option<(String, String)> {
    let k = case.kind.short();
    // the accepted sequence (one producer => one total order)
    let mut accepted: Vec<&SendRec> = run.sends.iter().filter(|s| s.accepted && !s.unfinished).collect();
    accepted.sort_by_key(|s| s.call);
    let order: Vec<u64> = accepted.iter().map(|s| s.val).collect();
    let index_of = |v: u64| order.iter().position(|x| *x == v);
    for (ci, c) in case.consumers.iter().enumerate() {
        let got: Vec<u64> = run.polls.iter().filter(|p| p.consumer as usize == ci).filter_map(|p| if let PollRes::Item { val, intact, .. } = p.res { if intact { Some(val) } else { Some(0) } } else { None }).collect();
        let role = if c.create_late { "added" } else if c.stop_after.is_some() { "removed" } else { "stable" };
        let mut idx = vec![];
        for v in &got {
            match index_of(*v) {
                Some(i) => idx.push(i),
                None => return Some((format!("{k}/{role}/invented-or-corrupt"), format!("{role} listener {ci} yielded {} which was never accepted; history: {}", payload::show(*v), run.render()))),
            }
        }
        for w in idx.windows(2) {
            if w[1] == w[0] { return Some((format!("{k}/{role}/repeated"), format!("{role} listener {ci} yielded {} twice; history: {}", payload::show(order[w[0]]), run.render()))); }
            if w[1] < w[0] { return Some((format!("{k}/{role}/out-of-order"), format!("{role} listener {ci} yielded events out of order; history: {}", run.render()))); }
            if w[1] != w[0] + 1 { return Some((format!("{k}/{role}/missed"), format!("{role} listener {ci} missed {} (gap in what it yielded); history: {}", payload::show(order[w[0] + 1]), run.render()))); }
        }
        let mut seen = BTreeSet::new();
        for i in &idx { if !seen.insert(*i) { return Some((format!("{k}/{role}/repeated"), format!("{role} listener {ci} yielded {} twice; history: {}", payload::show(order[*i]), run.render()))); } }
        match role {
            "stable" => {
                if idx.len() != order.len() {
                    let missing = (0..order.len()).find(|i| !idx.contains(i)).unwrap();
                    return Some((format!("{k}/stable/missed"), format!("stable listener {ci} never yielded {} (not even in the final drain); history: {}", payload::show(order[missing]), run.render())));
                }
            },
            "removed" => {
                // a gapless prefix
                if let Some(first) = idx.first() { if *first != 0 { return Some((format!("{k}/removed/missed"), format!("removed listener {ci} did not start with the first accepted event; history: {}", run.render()))); } }
            },
            _ => {
                // a gapless suffix: everything whose send started after the listener's creation returned, nothing whose send had returned before the creation was called
                let (c_call, c_ret) = run.consumers[ci].created_at.unwrap_or((0, 0));
                for (i, s) in accepted.iter().enumerate() {
                    if s.call > c_ret && !idx.contains(&i) {
                        return Some((format!("{k}/added/missed"), format!("added listener {ci} (created over [{c_call},{c_ret}]) never yielded {} whose send started at {}; history: {}", payload::show(s.val), s.call, run.render())));
                    }
                    if s.ret < c_call && idx.contains(&i) {
                        return Some((format!("{k}/added/old-event"), format!("added listener {ci} (created over [{c_call},{c_ret}]) yielded {} whose send had returned at {}; history: {}", payload::show(s.val), s.ret, run.render())));
                    }
                }
                if let (Some(last), false) = (idx.last(), idx.is_empty()) { if *last != order.len() - 1 && run.consumers[ci].dropped_at.is_none() { return Some((format!("{k}/added/missed"), format!("added listener {ci} did not reach the last accepted event; history: {}", run.render()))); } }
            },
        }
    }
    if case.kind.is_ogre_arc() {
        // a copy enqueued into a departed listener's queue after that queue was emptied stays there -- its pool slot occupied -- until a new listener
        // takes the id (and then yields an event sent before it existed): found by fresh listeners on every vacant id, before the capacity probe
        if let Some(v) = run.stale_after_recycling.first() {
            return Some((format!("{k}/stale-copy-left-in-a-departed-listener's-queue"), format!("after the run a fresh listener on a recycled stream id yielded {} (sent before it existed): a copy enqueued into the departed listener's queue after it was emptied, its payload storage occupied until then ({} such); history: {}", payload::show(*v), run.stale_after_recycling.len(), run.render())));
        }
        if let Some(n) = run.capacity_probe {
            if n != case.buffer as u32 {
                return Some((format!("{k}/storage-leaked"), format!("after every event was consumed and released (the queues of vacant stream ids included), only {n} of BUFFER_SIZE={} further sends were accepted: payload storage stays occupied for good; history: {}", case.buffer, run.render())));
            }
        }
    }
    None
}

pub struct C17Churn;
impl Property for C17Churn {
    type Case = ChanCase;
    fn part(&self) -> &'static str { "listener-churn-sched" }
    fn strategy(&self, _tier: Tier) -> BoxedStrategy<ChanCase> {
        case_strategy(Gen { kinds: &MULTI_KINDS, max_streams: &[4], buffers: &[8], max_producers: 1, max_ops: 6, max_consumers: 4, min_consumers: 3, churn: true, origins: true, ..Default::default() })
            .prop_map(|mut c| {
                // 2..3 listeners exist throughout; the others join late or leave early
                let mut stable = 0;
                for cons in c.consumers.iter_mut() {
                    if !cons.create_late && cons.stop_after.is_none() { stable += 1; }
                }
                for cons in c.consumers.iter_mut() {
                    if stable >= 2 { break; }
                    if cons.create_late || cons.stop_after.is_some() { cons.create_late = false; cons.stop_after = None; stable += 1; }
                }
                if !c.consumers.iter().any(|x| x.create_late || x.stop_after.is_some()) { let n = c.consumers.len(); c.consumers[n - 1].create_late = true; }
                uni::sanitize(c)
            })
            .boxed()
    }
    fn decode(&self, u: &mut arbitrary::Unstructured<'_>) -> Option<ChanCase> { crate::props::uni::decode_chan(u, &Gen { kinds: &MULTI_KINDS, max_streams: &[4], buffers: &[8], max_producers: 1, max_ops: 6, max_consumers: 4, min_consumers: 3, churn: true, origins: true, ..Default::default() }) }
    fn cases(&self, tier: Tier) -> u32 { match tier { Tier::Quick => 24_000, Tier::Thorough => 240_000 } }
    fn run(&self, case: &ChanCase) -> RunReport {
        let run = execute(case, Epilogue { drain: true, capacity_probe: case.kind.is_ogre_arc(), recycle_drain: case.kind.is_ogre_arc(), ..Default::default() });
        // the live-list *mutation window* of a listener creation / removal -- from the entry of create_stream_id() / report_stream_dropped() (before the
        // running count changes) to the end of the list rebuild -- overlapped a send. (Known finding R8 is exactly this overlap; what a removal does
        // before it reports the stream as dropped, or a creation after the rebuild, is outside the window.)
        let mut windows: Vec<(u64, u64)> = vec![];
        for (i, (t0, tid, tag)) in run.marks.iter().enumerate() {
            if *tag == "sm.create.begin" || *tag == "sm.drop.begin" {
                let t1 = run.marks[i + 1..].iter().find(|(_, t, g)| t == tid && *g == "sm.sync.done").map(|m| m.0).unwrap_or(u64::MAX);
                windows.push((*t0, t1));
            }
        }
        let overlapped = windows.iter().any(|(a, b)| run.sends.iter().any(|s| s.call < *b && *a < s.ret));
        let judged = if run.end == EndState::Completed { judge_churn(case, &run).map(|(sig, d)| (format!("{sig}/rebuild-overlapped-send={}", if overlapped { "y" } else { "n" }), d)) } else { None };
        let mut classes = base_classes(case);
        if case.consumers.iter().any(|c| c.create_late) { classes.push("listener-added".into()); }
        if case.consumers.iter().any(|c| c.stop_after.is_some()) { classes.push("listener-removed".into()); }
        if overlapped { classes.push("rebuild-overlapped-send".into()); }
        finish(case, &run, classes, overlapped, judged)
    }
    fn rule(&self) -> String {
        "generated: Multi kind (6) x MAX_STREAMS 4, BUFFER_SIZE 8 x 2..3 listeners that exist throughout + 1..2 listeners that are created by their own thread during the run and / or dropped after 1..3 items x one producer sending 1..6 events x schedule (scheduling points between every entry write of the live-list rebuild and every read of the fan-out loop); \
         oracle: stable listeners yield every accepted event exactly once in order; an added listener a gapless suffix (all events whose send started after its creation returned, none whose send had returned before its creation was called); a removed one a gapless prefix; nothing invented; ogre_arc kinds: after everything is consumed and released exactly BUFFER_SIZE further sends are accepted (no payload storage left occupied); \
         known finding R8 applies only where the mutation window of the live-listener list (entry of create_stream_id / report_stream_dropped .. end of the list rebuild, taken from yield-point marks) overlapped a send; \
         non-trivial: such a mutation window overlapped a send".into()
    }
    fn schedule_mut<'a>(&self, case: &'a mut ChanCase) -> Option<&'a mut Schedule> { Some(&mut case.schedule) }
}

// ---------------------------------------------------------------------------------------------------------------------
// C05 (controlled-schedule part): destruction exactly once, storage not reused while held, teardown with leftovers

pub fn judge_payload_life(case: &ChanCase, run: &ChanRun) -> Option<(String, String)> {
    let k = case.kind.short();
    let f = Facts::new(run);
    if run.ledger_corrupt > 0 {
        return Some((format!("{k}/destructor-on-garbage"), format!("{} destructor run(s) on something that is not an intact payload (destroyed twice, overwritten, or never written); history: {}", run.ledger_corrupt, run.render())));
    }
    for r in &run.releases {
        if !r.intact_before {
            return Some((format!("{k}/payload-changed-while-held"), format!("the payload {} held by consumer {} was destroyed or overwritten before its handle was released; history: {}", payload::show(r.val), r.consumer, run.render())));
        }
    }
    let drops: BTreeMap<u64, u32> = run.ledger.iter().copied().collect();
    for (v, n) in &drops {
        if *n > 1 { return Some((format!("{k}/destroyed-twice"), format!("payload {} was destroyed {n} times; history: {}", payload::show(*v), run.render()))); }
        if f.rejected.contains(v) { return Some((format!("{k}/rejected-payload-destroyed"), format!("the rejected payload {} was destroyed by the channel although it was handed back; history: {}", payload::show(*v), run.render()))); }
    }
    // after teardown: every accepted payload destroyed exactly once (delivered-and-released, or still buffered when the channel was dropped)
    // (an event still buffered when the channel is torn down only has to be destroyed *at most* once)
    for (v, _) in &f.accepted {
        if f.delivered.contains_key(v) && drops.get(v).copied().unwrap_or(0) != 1 {
            return Some((format!("{k}/never-destroyed"), format!("payload {} was delivered and every handle to it released, but it was never destroyed; history: {}", payload::show(*v), run.render())));
        }
    }
    // pooled storage is not given to a new event while a handle to the old one lives
    if case.kind.is_pooled() {
        let mut holds: Vec<(u64, usize, u64, u64)> = vec![];     // (val, addr, from = poll.ret, to = release.call)
        for p in &run.polls {
            if let PollRes::Item { val, addr, .. } = p.res {
                let rel = run.releases.iter().filter(|r| r.val == val && r.consumer == p.consumer).map(|r| r.call).max().unwrap_or(u64::MAX);
                holds.push((val, addr, p.ret, rel));
            }
        }
        for a in &holds { for b in &holds {
            if a.0 != b.0 && a.1 == b.1 && a.2 <= b.2 && b.2 < a.3 {
                // b was handed out at b.2 while a (another payload, same storage) was still held: the drop of a's last handle had not even been called
                {
                    return Some((format!("{k}/storage-reused-while-held"), format!("payload {} was handed out at the address of {} while a handle to the latter was still alive; history: {}", payload::show(b.0), payload::show(a.0), run.render())));
                }
            }
        } }
    }
    if run.dead_waker_uses > 0 {
        // (the signature is independent of the channel kind: the waker slots are StreamsManagerBase's)
        let why = if run.dead_waker_uses == run.dead_waker_uses_superseded { "replaced-by-a-newer-waker" } else { "other" };
        return Some((format!("waker-used-after-drop/{why}"), format!("[{k}] a waker was invoked {} time(s) after every copy the channel held of it had been dropped ({why}): the producer loaded it from the waker slot, the stream registered a different waker (dropping the old one), then the producer used what it had loaded; history: {}", run.dead_waker_uses, run.render())));
    }
    if let Some(n) = run.capacity_probe {
        if n != case.buffer as u32 {
            return Some((format!("{k}/capacity-not-restored"), format!("after all events were consumed and released only {n} further sends were accepted (BUFFER_SIZE {}); history: {}", case.buffer, run.render())));
        }
    }
    None
}

pub struct C05Sched;
impl Property for C05Sched {
    type Case = ChanCase;
    fn part(&self) -> &'static str { "payload-life-sched" }
    fn strategy(&self, _tier: Tier) -> BoxedStrategy<ChanCase> {
        static KINDS: [ChanKind; 10] = [ChanKind::UniMoveAtomic, ChanKind::UniMoveFullSync, ChanKind::UniMoveCrossbeam, ChanKind::UniZcAtomic, ChanKind::UniZcFullSync,
                                        ChanKind::MultiArcAtomic, ChanKind::MultiArcFullSync, ChanKind::MultiArcCrossbeam, ChanKind::MultiOgreAtomic, ChanKind::MultiOgreFullSync];
        (case_strategy(Gen { kinds: &KINDS, max_streams: &[1, 2, 4, 8, 16], buffers: &[2, 4, 8, 16, 64], max_producers: 2, max_ops: 4, max_consumers: 3, retry: true, handles: true, prefill: true, fresh_wakers: true, origins: true, ..Default::default() }),
         any::<u8>(), proptest::collection::vec(0u8..3, 3))
            .prop_map(|(mut c, mode, limits)| {
                // a third of the cases tear the channel down with events still buffered
                if mode % 3 == 0 {
                    c.leftovers = true;
                    for (i, cons) in c.consumers.iter_mut().enumerate() { cons.max_items = Some(limits[i % 3]); }
                }
                uni::sanitize(c)
            })
            .boxed()
    }
    fn cases(&self, tier: Tier) -> u32 { match tier { Tier::Quick => 20_000, Tier::Thorough => 200_000 } }
    fn run(&self, case: &ChanCase) -> RunReport {
        let probe = !case.leftovers && !case.kind.waits_when_full();
        let run = execute(case, Epilogue { drain: !case.leftovers, capacity_probe: probe, ..Default::default() });
        let judged = if run.end == EndState::Completed { judge_payload_life(case, &run) } else { None };
        let buffered_at_teardown = case.leftovers && { let f = Facts::new(&run); f.accepted.keys().any(|v| !f.delivered.contains_key(v)) };
        let cross = case.consumers.iter().any(|c| c.clone_handle || c.into_shared);
        let mut classes = base_classes(case);
        if buffered_at_teardown { classes.push("teardown-with-buffered-events".into()); }
        if case.consumers.iter().any(|c| c.clone_handle) { classes.push("handle-cloned".into()); }
        if case.consumers.iter().any(|c| c.into_shared) { classes.push("into-shared".into()); }
        finish(case, &run, classes, buffered_at_teardown || (cross && run.inside > 0), judged)
    }
    fn rule(&self) -> String {
        "generated: Uni movable (3) + zero-copy (2) + Multi arc (3) + ogre_arc (2) kinds x configuration x payload type with a destructor (reports to a drop ledger; holds no pointer, so a destructor running on garbage is recorded instead of crashing) x 1..2 producers (every entry point, rejected sends included) x 1..3 consumers that hold each item 0..2 steps, optionally clone the handle / convert a unique handle into a shared one, and release on their own thread x a third of the cases stop consuming early and tear the channel down with events still buffered x schedule; \
         oracle: after teardown every delivered payload was destroyed exactly once, no payload more than once (events still buffered at teardown: at most once), rejected (handed back) ones never, no destructor ran on garbage; a held payload is intact until its last handle is released; pooled kinds: two different events never share an address while both are held; no waker invoked after the channel dropped its copies; drained cases: exactly BUFFER_SIZE further sends accepted; \
         non-trivial: torn down with >= 1 event buffered, or handles cloned/converted with a thread switched out inside an operation".into()
    }
    fn schedule_mut<'a>(&self, case: &'a mut ChanCase) -> Option<&'a mut Schedule> { Some(&mut case.schedule) }
}

// ---------------------------------------------------------------------------------------------------------------------
// C06 at the channel level: gracefully_end_all_streams(ZERO) under the controlled scheduler

pub fn judge_end_all(case: &ChanCase, run: &ChanRun) -> Option<(String, String)> {
    let k = case.kind.short();
    let Some(e) = run.ends.iter().find(|e| e.target.is_none()) else { return None };
    let accepted_before: Vec<u64> = run.prefill.iter().copied().chain(run.sends.iter().filter(|s| s.accepted && !s.unfinished && s.ret < e.call).map(|s| s.val)).collect();
    let listeners: Vec<usize> = if case.kind.is_multi() { (0..run.consumers.len()).collect() } else { vec![usize::MAX] };
    for &li in &listeners {
        for v in &accepted_before {
            let yielded_by = |p: &&PollRec| matches!(p.res, PollRes::Item { val, .. } if val == *v) && (li == usize::MAX || p.consumer as usize == li);
            let ever = run.polls.iter().any(|p| yielded_by(&p));
            let in_time = run.polls.iter().any(|p| yielded_by(&p) && p.call < e.ret);
            let who = if li == usize::MAX { "any stream".to_string() } else { format!("listener {li}") };
            if !ever { return Some((format!("{k}/graceful-end-discarded-an-accepted-event"), format!("{} was accepted before gracefully_end_all_streams() was called at {} but was never yielded by {who}; history: {}", payload::show(*v), e.call, run.render()))); }
            if !in_time { return Some((format!("{k}/graceful-end-returned-before-an-accepted-event-was-yielded"), format!("{} was accepted before gracefully_end_all_streams() was called, the call returned at {} and {who} was handed the event only later; history: {}", payload::show(*v), e.ret, run.render()))); }
        }
    }
    for (ci, c) in run.consumers.iter().enumerate() {
        if !c.ended { return Some((format!("{k}/stream-not-ended-by-graceful-end"), format!("gracefully_end_all_streams() returned at {} but the stream of consumer {ci} never answered end-of-stream; history: {}", e.ret, run.render()))); }
        let end_at = run.polls.iter().filter(|p| p.consumer as usize == ci && p.res == PollRes::End).map(|p| p.ret).min().unwrap_or(u64::MAX);
        if run.polls.iter().any(|p| p.consumer as usize == ci && !p.resub && matches!(p.res, PollRes::Item { .. }) && p.call > end_at) { return Some((format!("{k}/yield-after-end"), format!("consumer {ci} was handed an event after end-of-stream; history: {}", run.render()))); }
    }
    if e.answer != 0 { return Some((format!("{k}/graceful-end-reported-streams-left"), format!("gracefully_end_all_streams(ZERO) answered {} streams left; history: {}", e.answer, run.render()))); }
    if run.running_at_quiescence != 0 { return Some((format!("{k}/streams-running-after-graceful-end"), format!("running_streams_count() = {} after gracefully_end_all_streams() returned and nothing can run any more; history: {}", run.running_at_quiescence, run.render()))); }
    if run.open_after == Some(true) { return Some((format!("{k}/open-after-graceful-end"), format!("is_channel_open() after gracefully_end_all_streams() returned; history: {}", run.render()))); }
    None
}

pub struct C06EndAll;
impl Property for C06EndAll {
    type Case = ChanCase;
    fn part(&self) -> &'static str { "graceful-end-all-sched" }
    fn strategy(&self, _tier: Tier) -> BoxedStrategy<ChanCase> {
        case_strategy(Gen { kinds: &ALL_KINDS, max_streams: &[1, 2, 4, 8, 16], buffers: &[2, 4, 8, 16, 64], max_producers: 2, max_ops: 3, max_consumers: 3, retry: true, fresh_wakers: false, prefill: true, origins: true, end_all: true, ..Default::default() })
    }
    fn decode(&self, u: &mut arbitrary::Unstructured<'_>) -> Option<ChanCase> { crate::props::uni::decode_chan(u, &Gen { kinds: &ALL_KINDS, max_streams: &[1, 2, 4, 8, 16], buffers: &[2, 4, 8, 16, 64], max_producers: 2, max_ops: 3, max_consumers: 3, retry: true, fresh_wakers: false, prefill: true, origins: true, end_all: true, ..Default::default() }) }
    fn cases(&self, tier: Tier) -> u32 { match tier { Tier::Quick => 14_000, Tier::Thorough => 140_000 } }
    fn run(&self, case: &ChanCase) -> RunReport {
        let run = execute(case, Epilogue { drain: true, ..Default::default() });
        let judged = if run.end == EndState::Completed { judge_end_all(case, &run) } else { None };
        let mut classes = base_classes(case);
        let mut nontrivial = false;
        if let Some(e) = run.ends.first() {
            let before: Vec<u64> = run.prefill.iter().copied().chain(run.sends.iter().filter(|s| s.accepted && s.ret < e.call).map(|s| s.val)).collect();
            let buffered = before.iter().filter(|v| !run.polls.iter().any(|p| matches!(p.res, PollRes::Item { val, .. } if val == **v) && p.ret < e.call)).count();
            if buffered > 0 { classes.push("events-buffered-when-called".into()); nontrivial = true; }
            if run.polls.iter().any(|p| p.call < e.ret && e.call < p.ret) { classes.push("overlapped-a-poll".into()); nontrivial = true; }
            if run.sends.iter().any(|s| s.call < e.ret && e.call < s.ret) { classes.push("overlapped-a-send".into()); }
        }
        finish(case, &run, classes, nontrivial, judged)
    }
    fn rule(&self) -> String {
        "generated: any of the 11 channel kinds x configuration x 0..B events already pending x 1..2 producers x 1..3 driven streams that drop themselves as soon as they answered end-of-stream (what an executor task does) x a closer thread calling gracefully_end_all_streams(Duration::ZERO) after 0..15 steps (driven to completion on a paused-clock runtime on its own logical thread, so every atomic operation of flush / cancel / wait stays a scheduling point) x schedule; \
         oracle: every event whose send had returned Ok (or that was pending) before the call started is yielded -- to some stream (Uni) / to every listener (Multi) -- by a poll that started before the call returned, and is never discarded; every stream answered end-of-stream, nothing is yielded after it; the call answers 0, running_streams_count()==0 and !is_channel_open() afterwards; \
         non-trivial: events were still buffered when the call started, or the call overlapped a poll".into()
    }
    fn schedule_mut<'a>(&self, case: &'a mut ChanCase) -> Option<&'a mut Schedule> { Some(&mut case.schedule) }
}

// ---------------------------------------------------------------------------------------------------------------------
// C07, ending one stream: gracefully_end_stream(id, ZERO) under the controlled scheduler

pub fn judge_end_one(case: &ChanCase, run: &ChanRun) -> Option<(String, String)> {
    let k = case.kind.short();
    let Some(e) = run.ends.iter().find(|e| e.target.is_some()) else { return None };
    let t = e.target.unwrap() as usize;
    let f = Facts::new(run);
    let tc = &run.consumers[t];
    if !tc.ended {
        let what = if tc.parked_at_quiescence { "parked-not-ended" } else { "not-ended" };
        return Some((format!("{k}/end-one/target-{what}"), format!("gracefully_end_stream() of consumer {t}'s stream was called at {} but the stream never answered end-of-stream ({what}); history: {}", e.call, run.render())));
    }
    if e.answer != 1 { return Some((format!("{k}/end-one/reported-failure"), format!("gracefully_end_stream(.., ZERO) answered false; history: {}", run.render()))); }
    let end_at = run.polls.iter().filter(|p| p.consumer as usize == t && !p.resub && p.res == PollRes::End).map(|p| p.ret).min().unwrap_or(u64::MAX);
    if run.polls.iter().any(|p| p.consumer as usize == t && !p.resub && !p.drain && matches!(p.res, PollRes::Item { .. }) && p.call > end_at) { return Some((format!("{k}/end-one/yield-after-end"), format!("the targeted stream yielded an event after end-of-stream; history: {}", run.render()))); }
    // streams that were not targeted keep going
    for (ci, _) in run.consumers.iter().enumerate() {
        if ci != t && run.polls.iter().any(|p| p.consumer as usize == ci && p.res == PollRes::End) {
            return Some((format!("{k}/end-one/untargeted-stream-ended"), format!("only consumer {t}'s stream was told to end, but consumer {ci}'s stream answered end-of-stream; history: {}", run.render())));
        }
    }
    if run.polls.iter().any(|p| p.resub && p.res == PollRes::End) {
        return Some((format!("{k}/end-one/untargeted-stream-ended/new-stream-after-the-target-was-dropped"), format!("the stream consumer {t} created after its first one had ended (and was dropped) answered end-of-stream although nobody told it to; history: {}", run.render())));
    }
    // payload sanity + delivery to the streams that stay
    for p in &run.polls { if let PollRes::Item { val, intact, .. } = p.res { if !intact || !f.accepted.contains_key(&val) { return Some((format!("{k}/end-one/bad-payload"), format!("consumer {} yielded {} (intact={intact}) which was never accepted; history: {}", p.consumer, payload::show(val), run.render()))); } } }
    if case.kind.is_multi() {
        // known finding R8 (see C17): a send whose fan-out overlaps the rebuild of the live-listener list (here: the target's drop, the creation and
        // the drop of its second stream) can miss / repeat listeners on the arc / ogre_arc kinds; those sends are left to C17's keyed finding
        let mut windows: Vec<(u64, u64)> = vec![];
        if !case.kind.is_mmap() { for w in [tc.dropped_at, tc.resub_at, tc.resub_dropped_at].into_iter().flatten() { windows.push(w); } }
        let in_r8 = |v: &u64| f.accepted.get(v).copied().flatten().map(|s| windows.iter().any(|w| s.call < w.1 && w.0 < s.ret)).unwrap_or(false);
        for ci in (0..run.consumers.len()).filter(|c| *c != t) {
            let got: Vec<u64> = run.polls.iter().filter(|p| p.consumer as usize == ci && !p.resub).filter_map(|p| if let PollRes::Item { val, .. } = p.res { Some(val) } else { None }).collect();
            for v in f.accepted.keys().filter(|v| !in_r8(v)) {
                let n = got.iter().filter(|g| *g == v).count();
                if n != 1 { return Some((format!("{k}/end-one/untargeted-listener-{}", if n == 0 { "missed-an-event" } else { "got-an-event-twice" }), format!("listener {ci} (not targeted) yielded {} {n} times (final drain included); history: {}", payload::show(*v), run.render()))); }
            }
        }
        // everything accepted before the request reaches the targeted listener too (it drains before honouring the request)
        let got_t: Vec<u64> = run.polls.iter().filter(|p| p.consumer as usize == t && !p.resub).filter_map(|p| if let PollRes::Item { val, .. } = p.res { Some(val) } else { None }).collect();
        for v in run.prefill.iter().copied().chain(run.sends.iter().filter(|s| s.accepted && !s.unfinished && s.ret < e.call).map(|s| s.val)) {
            if !got_t.contains(&v) { return Some((format!("{k}/end-one/target-lost-a-buffered-event"), format!("{} was accepted before gracefully_end_stream() was called but the targeted listener never yielded it; history: {}", payload::show(v), run.render()))); }
        }
    } else {
        for (val, polls) in &f.delivered { if polls.len() > 1 { return Some((format!("{k}/end-one/duplicated"), format!("{} yielded {} times; history: {}", payload::show(*val), polls.len(), run.render()))); } }
        let someone_left = run.consumers.len() > 1;
        if someone_left { for v in f.accepted.keys() { if !f.delivered.contains_key(v) { return Some((format!("{k}/end-one/lost"), format!("{} was accepted but no stream ever yielded it although untargeted streams remain (final drain included); history: {}", payload::show(*v), run.render()))); } } }
    }
    None
}

pub struct C07EndOne;
impl Property for C07EndOne {
    type Case = ChanCase;
    fn part(&self) -> &'static str { "end-one-sched" }
    fn strategy(&self, _tier: Tier) -> BoxedStrategy<ChanCase> {
        case_strategy(Gen { kinds: &ALL_KINDS, max_streams: &[1, 2, 4, 8, 16], buffers: &[2, 4, 8, 16, 64], max_producers: 2, max_ops: 3, max_consumers: 3, retry: true, fresh_wakers: true, prefill: true, origins: true, end_one: true, ..Default::default() })
    }
    fn decode(&self, u: &mut arbitrary::Unstructured<'_>) -> Option<ChanCase> { crate::props::uni::decode_chan(u, &Gen { kinds: &ALL_KINDS, max_streams: &[1, 2, 4, 8, 16], buffers: &[2, 4, 8, 16, 64], max_producers: 2, max_ops: 3, max_consumers: 3, retry: true, fresh_wakers: true, prefill: true, origins: true, end_one: true, ..Default::default() }) }
    fn cases(&self, tier: Tier) -> u32 { match tier { Tier::Quick => 12_000, Tier::Thorough => 120_000 } }
    fn run(&self, case: &ChanCase) -> RunReport {
        let run = execute(case, Epilogue { drain: true, ..Default::default() });
        let judged = if run.end == EndState::Completed { judge_end_one(case, &run) } else { None };
        let mut classes = base_classes(case);
        let mut nontrivial = false;
        if let Some(e) = run.ends.first() {
            let t = e.target.unwrap_or(0) as usize;
            if run.polls.iter().any(|p| p.consumer as usize == t && p.call < e.ret && e.call < p.ret) { classes.push("request-overlapped-a-poll-of-the-target".into()); nontrivial = true; }
            if run.polls.iter().filter(|p| p.consumer as usize == t && p.ret < e.call).last().map(|p| p.res == PollRes::Pending).unwrap_or(false) { classes.push("target-parked".into()); nontrivial = true; }
            if run.consumers.len() > 1 { classes.push("untargeted-streams-present".into()); }
            if run.polls.iter().any(|p| p.resub) { classes.push("target-resubscribed".into()); }
            if run.polls.iter().any(|p| p.resub && run.consumers[t].stream_id == Some(p.stream)) { classes.push("id-reused-while-the-request-was-in-progress".into()); }
        }
        finish(case, &run, classes, nontrivial, judged)
    }
    fn rule(&self) -> String {
        "generated: any of the 11 channel kinds x configuration x pending events x 1..2 producers x 1..3 driven streams x a thread calling gracefully_end_stream(id of one of them, Duration::ZERO) after 0..15 steps (driven to completion on a paused-clock runtime on its own logical thread) x the targeted consumer dropping its stream on end-of-stream and optionally subscribing again at once (a new stream that may re-use the id while the request is still looping) x schedule; \
         oracle: the targeted stream answers end-of-stream (parked = violation, decided at quiescence), yields nothing afterwards, the call answers true; no other stream -- nor the stream created afterwards -- answers end-of-stream; Multi: every untargeted listener yields every accepted event exactly once and the targeted one everything accepted before the request; Uni: nothing twice, nothing lost while untargeted streams remain; \
         non-trivial: the request overlapped a poll of the target or found it parked".into()
    }
    fn schedule_mut<'a>(&self, case: &'a mut ChanCase) -> Option<&'a mut Schedule> { Some(&mut case.schedule) }
}

// ---------------------------------------------------------------------------------------------------------------------
// C08 under the controlled scheduler: reservations kept outstanding / sent / cancelled while consumers poll concurrently

pub static RESERVE_KINDS: [ChanKind; 5] = [ChanKind::UniMoveAtomic, ChanKind::UniZcAtomic, ChanKind::UniZcFullSync, ChanKind::MultiOgreAtomic, ChanKind::MultiOgreFullSync];

pub struct C08Sched;
impl Property for C08Sched {
    type Case = ChanCase;
    fn part(&self) -> &'static str { "reserved-slots-sched" }
    fn strategy(&self, _tier: Tier) -> BoxedStrategy<ChanCase> {
        case_strategy(Gen { kinds: &RESERVE_KINDS, max_streams: &[1, 2], buffers: &[2, 4, 8], max_producers: 1, max_ops: 8, max_consumers: 2, retry: false, origins: true, prefill: true, reserve_ops: true, ..Default::default() })
    }
    fn decode(&self, u: &mut arbitrary::Unstructured<'_>) -> Option<ChanCase> { crate::props::uni::decode_chan(u, &Gen { kinds: &RESERVE_KINDS, max_streams: &[1, 2], buffers: &[2, 4, 8], max_producers: 1, max_ops: 8, max_consumers: 2, retry: false, origins: true, prefill: true, reserve_ops: true, ..Default::default() }) }
    fn cases(&self, tier: Tier) -> u32 { match tier { Tier::Quick => 15_000, Tier::Thorough => 150_000 } }
    fn run(&self, case: &ChanCase) -> RunReport {
        let run = execute(case, Epilogue { drain: true, capacity_probe: true, ..Default::default() });
        let mut judged = if run.end == EndState::Completed { if case.kind.is_uni() { uni::judge_delivery_uni(case, &run) } else { uni::judge_delivery_multi(case, &run) } } else { None };
        if judged.is_none() && run.end == EndState::Completed {
            if let Some(n) = run.capacity_probe { if n != case.buffer as u32 {
                judged = Some((format!("{}/capacity-after-reservations", case.kind.short()), format!("after every reservation was sent or cancelled and everything was consumed and released, {n} of BUFFER_SIZE+1={} sends were accepted (expected exactly {}); history: {}", case.buffer + 1, case.buffer, run.render())));
            } }
        }
        let sent = run.sends.iter().filter(|s| s.entry == Entry::Reserved && s.accepted).count();
        let cancelled = run.sends.iter().filter(|s| s.cancelled).count();
        let mut classes = base_classes(case);
        if sent > 0 { classes.push("reserved-sent".into()); }
        if cancelled > 0 { classes.push("reserved-cancelled".into()); }
        finish(case, &run, classes, run.inside > 0 && sent + cancelled > 0, judged)
    }
    fn rule(&self) -> String {
        "generated: the 5 kinds implementing reserve_slot / try_send_reserved / try_cancel_slot_reserve x BUFFER_SIZE {2,4,8} x MAX_STREAMS {1,2} x counter origin x pending events x ONE producer (the property quantifies over one reserving thread plus concurrently polling consumers; on the movable atomic ring a reservation of another thread in between makes reverse-order cancellation impossible by documented design) with a script of 1..8 steps over {plain sends, reserve (kept outstanding), fill+send the oldest outstanding reservation (retried while it answers false), cancel the newest (retried), ...} x 1..2 concurrently polling consumers x schedule (documented restrictions respected: movable atomic -- no plain send while the thread holds a reservation);          oracle: delivery ledger (a slot whose send answered true is delivered exactly once with the value written, a cancelled one never, nothing invented) -- a send_reserved / cancel that can never answer true is a decided stall -- and after completion + drain + release exactly BUFFER_SIZE further sends are accepted;          non-trivial: a thread was switched out inside an operation and a reservation was sent or cancelled".into()
    }
    fn schedule_mut<'a>(&self, case: &'a mut ChanCase) -> Option<&'a mut Schedule> { Some(&mut case.schedule) }
}
