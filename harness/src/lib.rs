//! `rmv` -- property-based / fuzzing verification harness for reactive-mutiny (see /verif/DESIGN.md): library part
//! (engines, properties, registry); the `rmv` binary and the libFuzzer targets in /verif/fuzz are thin front ends.

pub mod chan;
pub mod driver;
pub mod lin;
pub mod payload;
pub mod props;
pub mod sched;

use std::sync::atomic::AtomicBool;

pub static QUIET_ALL_PANICS: AtomicBool = AtomicBool::new(false);
/// a VIOLATION line has already been printed by this process (the watchdog must not turn the exit code into 'inconclusive')
pub static VIOLATION_PRINTED: AtomicBool = AtomicBool::new(false);

pub fn verif_dir() -> std::path::PathBuf {
    std::env::var("VERIF_DIR").map(std::path::PathBuf::from).unwrap_or_else(|_| std::path::PathBuf::from("/verif"))
}

pub struct PartEntry {
    pub property:    &'static str,
    pub name:        &'static str,
    pub run:         fn(&driver::Cfg) -> driver::PartResult,
    pub replay:      fn(&driver::ReplayFile) -> Result<driver::RunReport, String>,
    /// one libFuzzer input -> one generated case -> its report (and the case, for the replay file)
    pub fuzz:        fn(&[u8]) -> Option<(driver::RunReport, serde_json::Value)>,
}

macro_rules! part {
    ($prop:expr, $ty:expr) => {
        PartEntry {
            property: $prop,
            name:     driver::Property::part(&$ty),
            run:      |cfg| driver::run_part(&$ty, cfg),
            replay:   |file| driver::replay_part(&$ty, file),
            fuzz:     |data| driver::fuzz_part(&$ty, data),
        }
    }
}

pub fn registry() -> Vec<PartEntry> {
    use props::*;
    vec![
        part!("C01", uni::C01Uni),
        part!("C01", chanfree::C01Free),
        part!("C02", containers::Rings),
        part!("C02", uni::C02Uni),
        part!("C02", free::RingsFree),
        part!("C02", chanfree::C02Free),
        part!("C03", uni::C03Multi),
        part!("C03", chanfree::C03Free),
        part!("C04", uni::C04Uni),
        part!("C04", uni::C04Multi),
        part!("C04", chanfree::C04Free),
        part!("C05", life::C05Sched),
        part!("C05", seq::C05Seq),
        part!("C05", chanfree::C05Free),
        part!("C06", life::C06EndAll),
        part!("C06", rtchan::C06Uni),
        part!("C06", rtchan::C06Multi),
        part!("C06", rtpipe::C06Pipe),
        part!("C07", life::C07CancelAll),
        part!("C07", life::C07EndOne),
        part!("C07", rtchan::C07Multi),
        part!("C08", seq::C08Reserved),
        part!("C08", life::C08Sched),
        part!("C09", log::C09Log),
        part!("C10", seq::C10Lifetimes),
        part!("C11", rt::C11Exec),
        part!("C11", rtchan::C11Uni),
        part!("C11", rtchan::C11Multi),
        part!("C11", rtlong::C11Long),
        part!("C12", rt::C12Exec),
        part!("C12", rtchan::C12Uni),
        part!("C12", rtchan::C12Multi),
        part!("C13", alloc::C13Pool),
        part!("C13", poolfree::C13Free),
        part!("C14", alloc::C14Handles),
        part!("C15", seq::C15Channels),
        part!("C15", seq::C15Raw),
        part!("C15", containers::WrapDiffSched),
        part!("C16", life::C16Retry),
        part!("C16", seq::C16Seq),
        part!("C17", life::C17Churn),
        part!("C18", containers::Standalone),
        part!("C18", free::StandaloneFree),
        part!("C19", alloc::C19Average),
        part!("C19", avgfree::C19Free),
        part!("C20", life::C20Suspended),
        part!("C20", rtpipe::C20Close),
    ]
}

pub fn assumptions_for(id: &str) -> Vec<&'static str> {
    let mut v = vec![
        "controlled-schedule parts explore sequentially consistent interleavings only: one logical thread runs at a time, control changes hands at the library's atomic operations, at verif::yield_point()s and at harness events",
        "compare_exchange_weak never fails spuriously (executed as the strong version)",
    ];
    match id {
        "C18" => v.push("parking_lot's mutex is not instrumented: under the controlled scheduler the parking-lot stack's operations are atomic"),
        _ => {},
    }
    v
}


/// entry point of the libFuzzer target (/verif/fuzz)
pub mod fuzz {
    use crate::driver::{self, Verdict};
    use std::sync::atomic::{AtomicU64, Ordering::Relaxed};
    use std::sync::OnceLock;

    struct Setup { entry: crate::PartEntry, known: Vec<driver::KnownFinding> }
    static SETUP: OnceLock<Setup> = OnceLock::new();
    static EXECS: AtomicU64 = AtomicU64::new(0);
    static NONTRIVIAL: AtomicU64 = AtomicU64::new(0);
    static KNOWN_HITS: AtomicU64 = AtomicU64::new(0);
    static INCONCLUSIVE: AtomicU64 = AtomicU64::new(0);
    static UNDECODABLE: AtomicU64 = AtomicU64::new(0);

    fn stats_path(part: &str) -> std::path::PathBuf { crate::verif_dir().join("evidence").join(format!("fuzz-{part}.stats.json")) }

    pub fn one(data: &[u8]) {
        let setup = SETUP.get_or_init(|| {
            let part = std::env::var("RMV_FUZZ_PART").expect("RMV_FUZZ_PART=<part name>");
            let entry = crate::registry().into_iter().find(|p| p.name == part).unwrap_or_else(|| panic!("unknown part {part}"));
            crate::QUIET_ALL_PANICS.store(true, Relaxed);
            Setup { entry, known: driver::load_known(&crate::verif_dir().join("KNOWN_FINDINGS.txt")) }
        });
        let n = EXECS.fetch_add(1, Relaxed) + 1;
        if n == 1 { let _ = std::fs::remove_file(stats_path(setup.entry.name)); }
        match (setup.entry.fuzz)(data) {
            None => { UNDECODABLE.fetch_add(1, Relaxed); },
            Some((rep, case)) => {
                if rep.nontrivial { NONTRIVIAL.fetch_add(1, Relaxed); }
                match rep.verdict {
                    Verdict::Pass => {},
                    Verdict::Inconclusive(_) => { INCONCLUSIVE.fetch_add(1, Relaxed); },
                    Verdict::Violation { signature, detail } => {
                        if setup.known.iter().any(|k| k.property == setup.entry.property && k.signature == signature) {
                            KNOWN_HITS.fetch_add(1, Relaxed);
                        } else {
                            let dir = crate::verif_dir().join("evidence").join("replays");
                            let _ = std::fs::create_dir_all(&dir);
                            let path = dir.join(format!("{}-{}-fuzz-violation.json", setup.entry.property, setup.entry.name));
                            let file = driver::ReplayFile { property: setup.entry.property.to_string(), part: setup.entry.name.to_string(), signature: signature.clone(), detail: detail.clone(), expect: None, case };
                            let _ = std::fs::write(&path, serde_json::to_string_pretty(&file).unwrap_or_default());
                            write_stats(setup.entry.name, n, Some(&signature));
                            println!("VIOLATION property={} replay={}", setup.entry.property, path.display());
                            println!("  part={} signature={signature}\n  {}", setup.entry.name, detail.chars().take(1500).collect::<String>());
                            std::process::abort();
                        }
                    },
                }
            },
        }
        if n % 500 == 0 { write_stats(setup.entry.name, n, None); }
    }

    fn write_stats(part: &str, execs: u64, violation: Option<&str>) {
        let v = serde_json::json!({ "part": part, "executions": execs, "nontrivial": NONTRIVIAL.load(Relaxed), "known_finding_hits": KNOWN_HITS.load(Relaxed),
                                    "inconclusive": INCONCLUSIVE.load(Relaxed), "undecodable_inputs": UNDECODABLE.load(Relaxed), "violation": violation });
        let _ = std::fs::write(stats_path(part), v.to_string());
    }
}
