//! Type-erased adapters over the const-generic channel menu: 5 Uni kinds, 6 Multi kinds, a fixed menu of
//! (BUFFER_SIZE, MAX_STREAMS) configurations, one payload type ([Tracked]). Generators pick a configuration as data.

use crate::payload::Tracked;
use reactive_mutiny::prelude::advanced::*;
use serde::{Deserialize, Serialize};
use std::future::Future;
use std::pin::Pin;
use std::sync::atomic::{AtomicU32, AtomicU64, Ordering::Relaxed};
use std::sync::Arc;
use std::task::{Context, Poll, Waker};
use futures::Stream;

#[derive(Clone, Copy, Debug, PartialEq, Eq, Hash, Serialize, Deserialize, PartialOrd, Ord)]
pub enum ChanKind {
    UniMoveAtomic,
    UniMoveFullSync,
    UniMoveCrossbeam,
    UniZcAtomic,
    UniZcFullSync,
    MultiArcAtomic,
    MultiArcFullSync,
    MultiArcCrossbeam,
    MultiOgreAtomic,
    MultiOgreFullSync,
    MultiMmap,
}

pub static UNI_KINDS: [ChanKind; 5] = [ChanKind::UniMoveAtomic, ChanKind::UniMoveFullSync, ChanKind::UniMoveCrossbeam, ChanKind::UniZcAtomic, ChanKind::UniZcFullSync];
pub static MULTI_KINDS: [ChanKind; 6] = [ChanKind::MultiArcAtomic, ChanKind::MultiArcFullSync, ChanKind::MultiArcCrossbeam, ChanKind::MultiOgreAtomic, ChanKind::MultiOgreFullSync, ChanKind::MultiMmap];
pub static ALL_KINDS: [ChanKind; 11] = [ChanKind::UniMoveAtomic, ChanKind::UniMoveFullSync, ChanKind::UniMoveCrossbeam, ChanKind::UniZcAtomic, ChanKind::UniZcFullSync,
                                        ChanKind::MultiArcAtomic, ChanKind::MultiArcFullSync, ChanKind::MultiArcCrossbeam, ChanKind::MultiOgreAtomic, ChanKind::MultiOgreFullSync, ChanKind::MultiMmap];

/// the (BUFFER_SIZE, MAX_STREAMS) menu every kind is instantiated with
pub static CONFIGS: [(u8, u8); 9] = [(2, 1), (2, 2), (4, 1), (4, 2), (4, 4), (8, 2), (8, 4), (16, 16), (64, 8)];

#[derive(Clone, Copy, Debug, PartialEq, Eq, Hash, Serialize, Deserialize, PartialOrd, Ord)]
pub enum Entry {
    Send,
    SendWith,
    /// `send_with_async`, the setter suspending the given number of times before writing the payload
    SendAsync(u8),
    /// `reserve_slot` + fill + `try_send_reserved` (retried until it answers true)
    Reserved,
    /// `send_derived` with a pre-built `Arc` (Arc-based Multi kinds)
    Derived,
}

impl ChanKind {
    pub fn is_uni(self) -> bool { (self as u8) <= ChanKind::UniZcFullSync as u8 }
    pub fn is_multi(self) -> bool { !self.is_uni() }
    pub fn is_zero_copy(self) -> bool { matches!(self, ChanKind::UniZcAtomic | ChanKind::UniZcFullSync) }
    pub fn is_arc(self) -> bool { matches!(self, ChanKind::MultiArcAtomic | ChanKind::MultiArcFullSync | ChanKind::MultiArcCrossbeam) }
    pub fn is_ogre_arc(self) -> bool { matches!(self, ChanKind::MultiOgreAtomic | ChanKind::MultiOgreFullSync) }
    pub fn is_crossbeam(self) -> bool { matches!(self, ChanKind::UniMoveCrossbeam | ChanKind::MultiArcCrossbeam) }
    pub fn is_mmap(self) -> bool { self == ChanKind::MultiMmap }
    /// the reserve_slot / try_send_reserved / try_cancel_slot_reserve API is implemented
    pub fn has_reserve(self) -> bool { matches!(self, ChanKind::UniMoveAtomic | ChanKind::UniZcAtomic | ChanKind::UniZcFullSync | ChanKind::MultiOgreAtomic | ChanKind::MultiOgreFullSync) }
    pub fn has_async(self) -> bool { self != ChanKind::MultiMmap }
    pub fn has_derived(self) -> bool { self.is_arc() }
    /// payload storage is pooled: an event occupies capacity until its handle is released
    pub fn is_pooled(self) -> bool { self.is_zero_copy() || self.is_ogre_arc() }
    /// a full buffer makes `send` *wait* instead of rejecting (documented)
    pub fn waits_when_full(self) -> bool { self.is_arc() }
    pub fn entries(self) -> Vec<Entry> {
        let mut v = vec![Entry::Send, Entry::SendWith];
        if self.has_async() { v.push(Entry::SendAsync(0)); v.push(Entry::SendAsync(1)); v.push(Entry::SendAsync(2)); }
        if self.has_reserve() { v.push(Entry::Reserved); }
        if self.has_derived() { v.push(Entry::Derived); }
        v
    }
    pub fn short(self) -> &'static str {
        match self {
            ChanKind::UniMoveAtomic => "uni.move.atomic", ChanKind::UniMoveFullSync => "uni.move.full_sync", ChanKind::UniMoveCrossbeam => "uni.move.crossbeam",
            ChanKind::UniZcAtomic => "uni.zc.atomic", ChanKind::UniZcFullSync => "uni.zc.full_sync",
            ChanKind::MultiArcAtomic => "multi.arc.atomic", ChanKind::MultiArcFullSync => "multi.arc.full_sync", ChanKind::MultiArcCrossbeam => "multi.arc.crossbeam",
            ChanKind::MultiOgreAtomic => "multi.ogre_arc.atomic", ChanKind::MultiOgreFullSync => "multi.ogre_arc.full_sync", ChanKind::MultiMmap => "multi.mmap_log",
        }
    }
}

/// A delivered event, whatever wrapper the channel hands out. Dropping it releases the payload handle.
pub trait ItemHandle: Send {
    fn val(&self) -> u64;
    fn intact(&self) -> bool;
    /// address of the payload
    fn addr(&self) -> usize;
    /// another handle to the same payload (shared wrappers only)
    fn try_clone(&self) -> Option<Box<dyn ItemHandle>> { None }
    /// unique -> shared conversion (OgreUnique only)
    fn into_shared(self: Box<Self>) -> Result<Box<dyn ItemHandle>, Box<dyn ItemHandle>>;
    fn refcount(&self) -> Option<u32> { None }
}

impl ItemHandle for Tracked {
    fn val(&self) -> u64 { self.val }
    fn intact(&self) -> bool { Tracked::intact(self) }
    fn addr(&self) -> usize { self as *const Tracked as usize }
    fn into_shared(self: Box<Self>) -> Result<Box<dyn ItemHandle>, Box<dyn ItemHandle>> { Err(self) }
}
impl<A: BoundedOgreAllocator<Tracked> + Send + Sync + 'static> ItemHandle for OgreUnique<Tracked, A> {
    fn val(&self) -> u64 { (**self).val }
    fn intact(&self) -> bool { (**self).intact() }
    fn addr(&self) -> usize { &**self as *const Tracked as usize }
    fn into_shared(self: Box<Self>) -> Result<Box<dyn ItemHandle>, Box<dyn ItemHandle>> { if ((**self).val >> 32) & 1 == 0 { Ok(Box::new((*self).into_ogre_arc())) } else { Ok(Box::new(OgreArc::from(*self))) } }
}
impl<A: BoundedOgreAllocator<Tracked> + Send + Sync + 'static> ItemHandle for OgreArc<Tracked, A> {
    fn val(&self) -> u64 { (**self).val }
    fn intact(&self) -> bool { (**self).intact() }
    fn addr(&self) -> usize { &**self as *const Tracked as usize }
    fn try_clone(&self) -> Option<Box<dyn ItemHandle>> { Some(Box::new(self.clone())) }
    fn into_shared(self: Box<Self>) -> Result<Box<dyn ItemHandle>, Box<dyn ItemHandle>> { Err(self) }
    fn refcount(&self) -> Option<u32> { Some(self.references_count()) }
}
impl ItemHandle for Arc<Tracked> {
    fn val(&self) -> u64 { (**self).val }
    fn intact(&self) -> bool { (**self).intact() }
    fn addr(&self) -> usize { Arc::as_ptr(self) as usize }
    fn try_clone(&self) -> Option<Box<dyn ItemHandle>> { Some(Box::new(Arc::clone(self))) }
    fn into_shared(self: Box<Self>) -> Result<Box<dyn ItemHandle>, Box<dyn ItemHandle>> { Err(self) }
    fn refcount(&self) -> Option<u32> { Some(Arc::strong_count(self) as u32) }
}
impl ItemHandle for &'static Tracked {
    fn val(&self) -> u64 { (**self).val }
    fn intact(&self) -> bool { (**self).intact() }
    fn addr(&self) -> usize { *self as *const Tracked as usize }
    fn try_clone(&self) -> Option<Box<dyn ItemHandle>> { Some(Box::new(*self)) }
    fn into_shared(self: Box<Self>) -> Result<Box<dyn ItemHandle>, Box<dyn ItemHandle>> { Err(self) }
}

pub type Item = Box<dyn ItemHandle>;

pub trait StreamH: Send {
    fn id(&self) -> u32;
    fn poll(&mut self, waker: &Waker) -> Poll<Option<Item>>;
}

struct StreamAd<C: ChannelConsumer<'static, D> + Send + Sync + 'static, D: ItemHandle + std::fmt::Debug + Sync + 'static> {
    stream: MutinyStream<'static, Tracked, C, D>,
    id:     u32,
}
impl<C: ChannelConsumer<'static, D> + Send + Sync + 'static, D: ItemHandle + std::fmt::Debug + Sync + 'static> StreamH for StreamAd<C, D> {
    fn id(&self) -> u32 { self.id }
    fn poll(&mut self, waker: &Waker) -> Poll<Option<Item>> {
        let mut cx = Context::from_waker(waker);
        match Pin::new(&mut self.stream).poll_next(&mut cx) {
            Poll::Ready(Some(d)) => Poll::Ready(Some(Box::new(d) as Item)),
            Poll::Ready(None) => Poll::Ready(None),
            Poll::Pending => Poll::Pending,
        }
    }
}

/// Controls how often an async setter suspends
#[derive(Debug, Default)]
pub struct Gate {
    /// polls still to be answered `Pending`
    pub remaining: AtomicU32,
    /// set once the setter has run to completion
    pub setter_done: AtomicU32,
}
struct Suspend(Arc<Gate>);
impl Future for Suspend {
    type Output = ();
    fn poll(self: Pin<&mut Self>, _cx: &mut Context<'_>) -> Poll<()> {
        // (harness-side state: plain std atomics, not scheduling points)
        let r = self.0.remaining.load(Relaxed);
        if r > 0 {
            self.0.remaining.store(r - 1, Relaxed);
            Poll::Pending
        } else {
            Poll::Ready(())
        }
    }
}

#[derive(Clone, Copy, Debug, PartialEq, Eq)]
pub struct SendRes {
    pub accepted:     bool,
    /// rejected: the payload / setter handed back is the one passed in, un-invoked; accepted: the setter ran exactly once
    pub contract_ok:  bool,
}

pub type BoxFut<'a, T> = Pin<Box<dyn Future<Output = T> + Send + 'a>>;

pub trait Chan: Send + Sync {
    fn kind(&self) -> ChanKind;
    fn buffer(&self) -> usize;
    fn max_streams(&self) -> usize;

    fn send(&self, v: u64) -> SendRes;
    fn send_with(&self, v: u64) -> SendRes;
    /// the returned future resolves to the outcome; the setter suspends as `gate` says, then writes the payload
    fn send_async(&self, v: u64, gate: Arc<Gate>) -> BoxFut<'static, SendRes>;
    fn send_derived(&self, _v: u64) -> bool { unimplemented!() }
    fn reserve(&self) -> Option<usize>;
    fn fill(&self, slot: usize, v: u64) { unsafe { std::ptr::write(slot as *mut Tracked, Tracked::new(v)) } }
    fn send_reserved(&self, slot: usize) -> bool;
    fn cancel_reserved(&self, slot: usize) -> bool;

    /// Uni: a consumer stream; Multi: a listener for new events
    fn create_stream(&self) -> Box<dyn StreamH>;
    fn create_old_new(&self) -> (Box<dyn StreamH>, Box<dyn StreamH>) { unimplemented!() }
    fn create_joined(&self) -> Box<dyn StreamH> { unimplemented!() }

    fn pending(&self) -> u32;
    fn running(&self) -> u32;
    fn is_open(&self) -> bool;
    fn cancel_all(&self);
    fn flush(&self, timeout: std::time::Duration) -> BoxFut<'_, u32>;
    fn end_stream(&self, id: u32, timeout: std::time::Duration) -> BoxFut<'_, bool>;
    fn end_all(&self, timeout: std::time::Duration) -> BoxFut<'_, u32>;
}

macro_rules! producer_impl {
    () => {
        fn send(&self, v: u64) -> SendRes {
            match self.ch.send(Tracked::new(v)) {
                keen_retry::RetryResult::Ok { .. } => SendRes { accepted: true, contract_ok: true },
                keen_retry::RetryResult::Transient { input, .. } | keen_retry::RetryResult::Fatal { input, .. } => {
                    let same = input.val == v && input.intact();
                    std::mem::forget(input);      // the harness keeps rejected payloads out of the drop ledger
                    SendRes { accepted: false, contract_ok: same }
                },
            }
        }
        fn send_with(&self, v: u64) -> SendRes {
            let calls = std::cell::Cell::new(0u32);
            let res = self.ch.send_with(|slot: &mut Tracked| { calls.set(calls.get() + 1); reactive_mutiny::verif::yield_point("harness.setter"); unsafe { std::ptr::write(slot, Tracked::new(v)) }; reactive_mutiny::verif::yield_point("harness.setter.done"); });
            match res {
                keen_retry::RetryResult::Ok { .. } => SendRes { accepted: true, contract_ok: calls.get() == 1 },
                keen_retry::RetryResult::Transient { input: setter, .. } | keen_retry::RetryResult::Fatal { input: setter, .. } => {
                    let before = calls.get();
                    // the closure handed back must be ours and must still be callable
                    let mut scratch = std::mem::MaybeUninit::<Tracked>::uninit();
                    setter(unsafe { &mut *scratch.as_mut_ptr() });
                    let t = unsafe { scratch.assume_init() };
                    let same = t.val == v;
                    std::mem::forget(t);
                    SendRes { accepted: false, contract_ok: before == 0 && same }
                },
            }
        }
        fn send_async(&self, v: u64, gate: Arc<Gate>) -> BoxFut<'static, SendRes> {
            let arc = Arc::clone(&self.ch);
            Box::pin(async move {
                let calls = Arc::new(AtomicU32::new(0));
                let calls2 = Arc::clone(&calls);
                let gate2 = Arc::clone(&gate);
                // the channel outlives this future: `arc` is owned by it
                let ch = unsafe { &*Arc::as_ptr(&arc) };
                let res = ch.send_with_async(move |slot: &'static mut Tracked| async move {
                    calls2.fetch_add(1, Relaxed);
                    Suspend(Arc::clone(&gate2)).await;
                    unsafe { std::ptr::write(slot as *mut Tracked, Tracked::new(v)) };
                    gate2.setter_done.store(1, Relaxed);
                    slot
                }).await;
                match res {
                    keen_retry::RetryResult::Ok { .. } => SendRes { accepted: true, contract_ok: calls.load(Relaxed) == 1 },
                    _ => SendRes { accepted: false, contract_ok: calls.load(Relaxed) == 0 },
                }
            })
        }
        fn reserve(&self) -> Option<usize> { self.ch.reserve_slot().map(|r| r as *mut Tracked as usize) }
        fn send_reserved(&self, slot: usize) -> bool { self.ch.try_send_reserved(unsafe { &mut *(slot as *mut Tracked) }) }
        fn cancel_reserved(&self, slot: usize) -> bool { self.ch.try_cancel_slot_reserve(unsafe { &mut *(slot as *mut Tracked) }) }
    }
}

macro_rules! common_impl {
    () => {
        fn kind(&self) -> ChanKind { self.kind }
        fn pending(&self) -> u32 { self.ch.pending_items_count() }
        fn running(&self) -> u32 { self.ch.running_streams_count() }
        fn is_open(&self) -> bool { self.ch.is_channel_open() }
        fn cancel_all(&self) { self.ch.cancel_all_streams() }
        fn flush(&self, timeout: std::time::Duration) -> BoxFut<'_, u32> { Box::pin(self.ch.flush(timeout)) }
        fn end_stream(&self, id: u32, timeout: std::time::Duration) -> BoxFut<'_, bool> { Box::pin(self.ch.gracefully_end_stream(id, timeout)) }
        fn end_all(&self, timeout: std::time::Duration) -> BoxFut<'_, u32> { Box::pin(self.ch.gracefully_end_all_streams(timeout)) }
    }
}

pub struct UniAd<C> { pub ch: Arc<C>, kind: ChanKind }

impl<C, D> Chan for UniAd<C>
where C: FullDuplexUniChannel<ItemType = Tracked, DerivedItemType = D> + Send + Sync + 'static,
      D: ItemHandle + std::fmt::Debug + Send + Sync + 'static {
    common_impl!();
    producer_impl!();
    fn buffer(&self) -> usize { <C as FullDuplexUniChannel>::BUFFER_SIZE }
    fn max_streams(&self) -> usize { <C as FullDuplexUniChannel>::MAX_STREAMS }
    fn create_stream(&self) -> Box<dyn StreamH> {
        let (stream, id) = self.ch.create_stream();
        Box::new(StreamAd { stream, id })
    }
}

pub struct MultiAd<C> { pub ch: Arc<C>, kind: ChanKind, file: Option<String> }

impl<C> Drop for MultiAd<C> {
    fn drop(&mut self) { if let Some(f) = &self.file { let _ = std::fs::remove_file(f); } }
}

/// `send_derived` needs the concrete derived type: only the Arc kinds get a working one
pub trait DerivedFrom { fn make(v: u64) -> Option<Self> where Self: Sized; }
impl DerivedFrom for Arc<Tracked> { fn make(v: u64) -> Option<Self> { Some(Arc::new(Tracked::new(v))) } }
impl<A: BoundedOgreAllocator<Tracked> + Send + Sync + 'static> DerivedFrom for OgreArc<Tracked, A> { fn make(_v: u64) -> Option<Self> { None } }
impl DerivedFrom for &'static Tracked { fn make(_v: u64) -> Option<Self> { None } }

impl<C, D> Chan for MultiAd<C>
where C: FullDuplexMultiChannel<ItemType = Tracked, DerivedItemType = D> + Send + Sync + 'static,
      D: ItemHandle + DerivedFrom + std::fmt::Debug + Send + Sync + 'static {
    common_impl!();
    producer_impl!();
    fn buffer(&self) -> usize { <C as FullDuplexMultiChannel>::BUFFER_SIZE }
    fn max_streams(&self) -> usize { <C as FullDuplexMultiChannel>::MAX_STREAMS }
    fn send_derived(&self, v: u64) -> bool {
        let d = D::make(v).expect("send_derived is only generated for the Arc kinds");
        self.ch.send_derived(&d)
    }
    fn create_stream(&self) -> Box<dyn StreamH> {
        let (stream, id) = self.ch.create_stream_for_new_events();
        Box::new(StreamAd { stream, id })
    }
    fn create_old_new(&self) -> (Box<dyn StreamH>, Box<dyn StreamH>) {
        let ((old, old_id), (new, new_id)) = self.ch.create_streams_for_old_and_new_events();
        (Box::new(StreamAd { stream: old, id: old_id }), Box::new(StreamAd { stream: new, id: new_id }))
    }
    fn create_joined(&self) -> Box<dyn StreamH> {
        let (stream, id) = self.ch.create_stream_for_old_and_new_events();
        Box::new(StreamAd { stream, id })
    }
}

static MMAP_SEQ: AtomicU64 = AtomicU64::new(0);
thread_local! { static LAST_MMAP_NAME: std::cell::RefCell<String> = const { std::cell::RefCell::new(String::new()) }; }

/// A log channel with the given name (backing file `/tmp/<name>.mmap`, removed when the adapter is dropped)
pub fn make_mmap_named(name: String, max_streams: u8) -> Arc<dyn Chan> {
    let kind = ChanKind::MultiMmap;
    let file = Some(format!("/tmp/{name}.mmap"));
    match max_streams {
        1 => Arc::new(MultiAd { ch: ChannelMultiMmapLog::<Tracked, 1>::new(name), kind, file }) as Arc<dyn Chan>,
        2 => Arc::new(MultiAd { ch: ChannelMultiMmapLog::<Tracked, 2>::new(name), kind, file }) as Arc<dyn Chan>,
        4 => Arc::new(MultiAd { ch: ChannelMultiMmapLog::<Tracked, 4>::new(name), kind, file }) as Arc<dyn Chan>,
        16 => Arc::new(MultiAd { ch: ChannelMultiMmapLog::<Tracked, 16>::new(name), kind, file }) as Arc<dyn Chan>,
        8 => Arc::new(MultiAd { ch: ChannelMultiMmapLog::<Tracked, 8>::new(name), kind, file }) as Arc<dyn Chan>,
        other => panic!("unsupported MAX_STREAMS {other}"),
    }
}

/// Another log channel, alive next to the one this thread created last, whose name differs from that one's only in punctuation
/// (`rmv-<pid>-<n>` -> `rmv.<pid>.<n>` / `rmv:<pid>:<n>`): a different name is a different channel with its own history
pub fn make_mmap_sibling(variant: u8, max_streams: u8) -> Arc<dyn Chan> {
    let last = LAST_MMAP_NAME.with(|n| n.borrow().clone());
    let sep = match variant % 3 { 0 => ".", 1 => ":", _ => "+" };
    make_mmap_named(last.replace('-', sep), max_streams)
}

macro_rules! by_cfg {
    ($b:expr, $m:expr, $B:ident, $M:ident => $e:expr) => {
        match ($b, $m) {
            (2, 1) => { const $B: usize = 2; const $M: usize = 1; $e },
            (2, 2) => { const $B: usize = 2; const $M: usize = 2; $e },
            (4, 1) => { const $B: usize = 4; const $M: usize = 1; $e },
            (4, 2) => { const $B: usize = 4; const $M: usize = 2; $e },
            (4, 4) => { const $B: usize = 4; const $M: usize = 4; $e },
            (8, 2) => { const $B: usize = 8; const $M: usize = 2; $e },
            (8, 4) => { const $B: usize = 8; const $M: usize = 4; $e },
            (16, 16) => { const $B: usize = 16; const $M: usize = 16; $e },
            (64, 8) => { const $B: usize = 64; const $M: usize = 8; $e },
            other => panic!("unsupported (BUFFER_SIZE, MAX_STREAMS) {:?}", other),
        }
    }
}

/// Builds a channel of the given kind and configuration; its sequence counters (rings, free list, stream-id queue) start at `origin`
pub fn make(kind: ChanKind, buffer: u8, max_streams: u8, origin: u32) -> Arc<dyn Chan> {
    reactive_mutiny::verif::set_sequence_origin(origin);
    macro_rules! uni { ($t:ident) => { by_cfg!(buffer, max_streams, B, M => Arc::new(UniAd { ch: $t::<Tracked, B, M>::new("rmv"), kind }) as Arc<dyn Chan>) } }
    macro_rules! multi { ($t:ident) => { by_cfg!(buffer, max_streams, B, M => Arc::new(MultiAd { ch: $t::<Tracked, B, M>::new("rmv"), kind, file: None }) as Arc<dyn Chan>) } }
    let ch = match kind {
        ChanKind::UniMoveAtomic     => uni!(ChannelUniMoveAtomic),
        ChanKind::UniMoveFullSync   => uni!(ChannelUniMoveFullSync),
        ChanKind::UniMoveCrossbeam  => uni!(ChannelUniMoveCrossbeam),
        ChanKind::UniZcAtomic       => uni!(ChannelUniZeroCopyAtomic),
        ChanKind::UniZcFullSync     => uni!(ChannelUniZeroCopyFullSync),
        ChanKind::MultiArcAtomic    => multi!(ChannelMultiArcAtomic),
        ChanKind::MultiArcFullSync  => multi!(ChannelMultiArcFullSync),
        ChanKind::MultiArcCrossbeam => multi!(ChannelMultiArcCrossbeam),
        ChanKind::MultiOgreAtomic   => multi!(ChannelMultiOgreArcAtomic),
        ChanKind::MultiOgreFullSync => multi!(ChannelMultiOgreArcFullSync),
        ChanKind::MultiMmap => {
            let name = format!("rmv-{}-{}", std::process::id(), MMAP_SEQ.fetch_add(1, Relaxed));
            LAST_MMAP_NAME.with(|n| *n.borrow_mut() = name.clone());
            make_mmap_named(name, max_streams)
        },
    };
    reactive_mutiny::verif::set_sequence_origin(0);
    ch
}
