//! `rmv` -- property-based / fuzzing verification harness for reactive-mutiny (see /verif/DESIGN.md)

use rmv::{driver, sched, registry, assumptions_for, verif_dir, PartEntry, VIOLATION_PRINTED};
use driver::{Cfg, PartResult, Tier};
use std::path::PathBuf;
use std::sync::atomic::{AtomicBool, Ordering};
use std::time::Instant;


fn usage() -> ! {
    eprintln!("usage: rmv check <property-id> <quick|thorough>\n       rmv replay <file>");
    std::process::exit(2)
}

fn start_watchdog(limit_s: u64) {
    std::thread::spawn(move || {
        let mut last = driver::PROGRESS.load(Ordering::Relaxed);
        let mut idle = 0u64;
        loop {
            std::thread::sleep(std::time::Duration::from_secs(5));
            let now = driver::PROGRESS.load(Ordering::Relaxed);
            if now == last { idle += 5; } else { idle = 0; last = now; }
            if idle >= 30 {
                if let Some((id, path, sig, detail)) = driver::PENDING_VIOLATION.lock().unwrap().clone() {
                    println!("VIOLATION property={id} replay={}", path.display());
                    println!("  signature={sig}\n  {}", detail.chars().take(1500).collect::<String>());
                    println!("  (reported by the watchdog: after this violation was observed other workers hung inside the library for 30 s; the case is not shrunk)");
                    std::process::exit(1);
                }
            }
            if idle >= limit_s {
                println!("INCONCLUSIVE: watchdog -- no case completed for {limit_s} s (hang inside a case); this is not a violation");
                std::process::exit(if VIOLATION_PRINTED.load(Ordering::Relaxed) { 1 } else { 2 });
            }
        }
    });
}

/// committed regression cases: run first, in every tier
fn run_committed_replays(id: &str, cfg: &Cfg, reg: &[PartEntry]) -> (u32, i32) {
    let dir = verif_dir().join("replays");
    let mut ran = 0;
    let mut exit = 0;
    let Ok(entries) = std::fs::read_dir(&dir) else { return (0, 0) };
    let mut files: Vec<_> = entries.filter_map(|e| e.ok()).map(|e| e.path())
        .filter(|p| p.file_name().and_then(|n| n.to_str()).map(|n| n.starts_with(&format!("{id}-")) && n.ends_with(".json")).unwrap_or(false)).collect();
    files.sort();
    for path in files {
        let Ok(text) = std::fs::read_to_string(&path) else { continue };
        let file: driver::ReplayFile = match serde_json::from_str(&text) { Ok(f) => f, Err(e) => { println!("HARNESS-ERROR cannot parse {}: {e}", path.display()); exit = 2; continue } };
        let Some(entry) = reg.iter().find(|p| p.name == file.part) else { println!("HARNESS-ERROR unknown part in {}", path.display()); exit = 2; continue };
        ran += 1;
        match (entry.replay)(&file) {
            Ok(rep) => match rep.verdict {
                driver::Verdict::Violation { signature, detail } => {
                    let known = cfg.known.iter().any(|k| k.property == id && k.signature == signature);
                    if known {
                        println!("replay {} -> known finding {signature} still present", path.display());
                    } else {
                        println!("VIOLATION property={id} replay={}", path.display());
                        println!("  signature={signature}\n  {detail}");
                        VIOLATION_PRINTED.store(true, Ordering::Relaxed);
                        exit = 1;
                    }
                },
                driver::Verdict::Pass => {
                    if file.expect.as_deref() == Some("known") {
                        println!("NOTE: golden witness {} no longer fails: its KNOWN_FINDINGS entry looks stale", path.display());
                    }
                },
                driver::Verdict::Inconclusive(why) => println!("replay {} inconclusive: {why}", path.display()),
            },
            Err(e) => { println!("HARNESS-ERROR replay {}: {e}", path.display()); exit = 2; },
        }
    }
    (ran, exit)
}

/// Runs `rmv <args>` as a child process. `Ok(code)`: it exited by itself; `Err(text)`: it was killed by a signal / aborted.
fn run_child(args: &[String], quiet: bool) -> Result<i32, String> {
    let exe = std::env::current_exe().expect("current exe");
    let mut cmd = std::process::Command::new(exe);
    cmd.args(args).env("RMV_CHILD", "1");
    if quiet { cmd.stdout(std::process::Stdio::null()).stderr(std::process::Stdio::null()); }
    let status = cmd.status().expect("spawn child");
    match status.code() {
        Some(c) if c == 0 || c == 1 || c == 2 => Ok(c),
        Some(c) => Err(format!("exit code {c} (panic / abort)")),
        None => Err(format!("{status}")),
    }
}

/// The checks run in a child process: a case that corrupts memory inside the library kills the child, not the verdict.
/// On a crash the parent re-runs the cases that were in flight, one per fresh process, and reports the one that crashes.
fn supervise(args: &[String]) -> ! {
    let started = Instant::now();
    match run_child(&args[1..], false) {
        Ok(code) => std::process::exit(code),
        Err(how) => {
            if args[1] == "replay" {
                let id = std::fs::read_to_string(&args[2]).ok().and_then(|t| serde_json::from_str::<driver::ReplayFile>(&t).ok()).map(|f| f.property).unwrap_or_default();
                println!("VIOLATION property={id} replay={}", args[2]);
                println!("  the case crashes the process: {how}");
                std::process::exit(1);
            }
            let id = args[2].clone();
            let dir = verif_dir().join("evidence").join("replays");
            let mut culprit: Option<(PathBuf, String)> = None;
            let mut candidates: Vec<PathBuf> = std::fs::read_dir(&dir).map(|d| d.filter_map(|e| e.ok()).map(|e| e.path())
                .filter(|p| p.file_name().and_then(|n| n.to_str()).map(|n| n.starts_with(&format!("inflight-{id}-"))).unwrap_or(false)).collect()).unwrap_or_default();
            candidates.sort();
            for c in &candidates {
                if let Err(h) = run_child(&["replay".to_string(), c.display().to_string()], true) { culprit = Some((c.clone(), h)); break; }
            }
            let known = driver::load_known(&verif_dir().join("KNOWN_FINDINGS.txt"));
            let tier = args.get(3).cloned().unwrap_or_else(|| "quick".into());
            let seed: u64 = std::env::var("VERIF_SEED").ok().and_then(|s| s.trim().parse::<i128>().ok()).map(|v| v as u64).unwrap_or(20260929);
            let (exit, violations, note) = match culprit {
                Some((path, h)) => {
                    let text = std::fs::read_to_string(&path).unwrap_or_default();
                    let file: Option<driver::ReplayFile> = serde_json::from_str(&text).ok();
                    let kind = file.as_ref().and_then(|f| f.case.get("kind").map(|k| k.to_string().replace('"', ""))).unwrap_or_default();
                    let part = file.as_ref().map(|f| f.part.clone()).unwrap_or_default();
                    let sig = format!("{part}/crash/{kind}");
                    let keep = dir.join(format!("{id}-{part}-crash.json"));
                    if let Some(mut f) = file { f.signature = sig.clone(); f.detail = format!("the case crashes the process: {h}"); let _ = std::fs::write(&keep, serde_json::to_string_pretty(&f).unwrap()); }
                    if let Some(k) = known.iter().find(|k| k.property == id && k.signature == sig) {
                        println!("KNOWN-FINDING: property={id} sig={sig} {} (the search stops at a crash: re-run with another VERIF_SEED to look further)", k.text);
                        (0, 0, format!("known crash {sig}"))
                    } else {
                        println!("VIOLATION property={id} replay={}", keep.display());
                        println!("  signature={sig}\n  the case crashes the process ({h}); confirmed by re-running it alone in a fresh process");
                        (1, 1, format!("crash {sig}"))
                    }
                },
                None => {
                    println!("INCONCLUSIVE property={id}: the check process died ({how}) but none of the {} in-flight cases crashes on its own; this is not reported as a violation", candidates.len());
                    (2, 0, "unreproduced crash".to_string())
                },
            };
            for c in &candidates { let _ = std::fs::remove_file(c); }
            let evidence = serde_json::json!({
                "property_id": id, "tier": tier, "seed": seed, "level": "exploration",
                "coverage": { "evaluations": 0, "distinct_nontrivial": 0, "rule": "the check process was killed by a crash inside a case; see explanation", "samples": [note.clone()], "explanation": note },
                "assumptions": [], "wall_s": started.elapsed().as_secs_f64(), "violations": violations,
            });
            let _ = std::fs::write(verif_dir().join("evidence").join(format!("{id}{}.json", std::env::var("RMV_EVIDENCE_SUFFIX").unwrap_or_default())), serde_json::to_string_pretty(&evidence).unwrap());
            std::process::exit(exit);
        },
    }
}

fn main() {
    let args: Vec<String> = std::env::args().collect();
    if args.len() < 2 { usage(); }
    if std::env::var("RMV_CHILD").is_err() && (args[1] == "check" && args.len() >= 4 || args[1] == "replay" && args.len() >= 3) { supervise(&args); }
    match args[1].as_str() {
        "check" => {
            if args.len() < 4 { usage(); }
            let id = args[2].clone();
            let tier = match args[3].as_str() { "quick" => Tier::Quick, "thorough" => Tier::Thorough, _ => usage() };
            let seed: u64 = std::env::var("VERIF_SEED").ok().and_then(|s| s.trim().parse::<i128>().ok()).map(|v| v as u64).unwrap_or(20260929);
            let workers: usize = std::env::var("VERIF_WORKERS").ok().and_then(|s| s.parse().ok()).unwrap_or(16);
            let case_scale: f64 = std::env::var("VERIF_CASE_SCALE").ok().and_then(|s| s.parse().ok()).unwrap_or(1.0);
            let cfg = Cfg {
                property: id.clone(),
                tier,
                seed,
                workers,
                known: driver::load_known(&verif_dir().join("KNOWN_FINDINGS.txt")),
                replays_out: verif_dir().join("evidence").join("replays"),
                case_scale,
                survey: std::env::var("VERIF_SURVEY").is_ok(),
                inflight_every_case: false,
            };
            start_watchdog(180);
            let started = Instant::now();
            let reg = registry();
            let mine: Vec<&PartEntry> = reg.iter().filter(|p| p.property == id).collect();
            if mine.is_empty() {
                eprintln!("unknown property {id}");
                std::process::exit(2);
            }
            let (replays_run, replay_exit) = run_committed_replays(&id, &cfg, &reg);
            let only: Option<String> = std::env::var("VERIF_PART").ok();
            let parts: Vec<PartResult> = mine.iter().filter(|p| only.as_deref().map(|o| o == p.name).unwrap_or(true)).map(|p| (p.run)(&cfg)).collect();
            let evidence = verif_dir().join("evidence").join(format!("{id}{}.json", std::env::var("RMV_EVIDENCE_SUFFIX").unwrap_or_default()));
            let code = driver::conclude(&cfg, parts, started, &assumptions_for(&id), &evidence, replays_run);
            std::process::exit(if replay_exit == 1 || code == 1 { 1 } else { code.max(replay_exit) });
        },
        "replay" => {
            if args.len() < 3 { usage(); }
            let text = std::fs::read_to_string(&args[2]).expect("read replay file");
            let file: driver::ReplayFile = serde_json::from_str(&text).expect("parse replay file");
            sched::VERBOSE_PANICS.store(true, Ordering::Relaxed);
            if std::env::var("RMV_TRACE").is_ok() { sched::TRACE_OPS.store(true, Ordering::Relaxed); }
            let rep = replay(&file);
            match rep {
                Ok(rep) => {
                    println!("replay property={} part={} -> {:?}", file.property, file.part, rep.verdict);
                    println!("  {}", rep.summary);
                    match rep.verdict {
                        driver::Verdict::Violation { .. } => { println!("VIOLATION property={} replay={}", file.property, args[2]); std::process::exit(1) },
                        driver::Verdict::Pass => std::process::exit(0),
                        driver::Verdict::Inconclusive(_) => std::process::exit(2),
                    }
                },
                Err(e) => { eprintln!("cannot replay: {e}"); std::process::exit(2) },
            }
        },
        "parts" => { for e in registry() { println!("{} {}", e.property, e.name); } },
        // `rmv fuzz-once <part> <file>`: decodes one libFuzzer input into a case of that part, runs it, prints the report (strict)
        "fuzz-once" => {
            if args.len() < 4 { usage(); }
            let data = std::fs::read(&args[3]).expect("read input file");
            let reg = registry();
            let entry = reg.iter().find(|p| p.name == args[2]).unwrap_or_else(|| { eprintln!("unknown part"); std::process::exit(2) });
            match (entry.fuzz)(&data) {
                None => { println!("input does not decode into a case"); std::process::exit(2) },
                Some((rep, case)) => {
                    println!("case: {}", serde_json::to_string(&case).unwrap_or_default());
                    println!("verdict: {:?}\n  {}", rep.verdict, rep.summary);
                    std::process::exit(if matches!(rep.verdict, driver::Verdict::Violation { .. }) { 1 } else { 0 });
                },
            }
        },
        _ => usage(),
    }
}

fn replay(file: &driver::ReplayFile) -> Result<driver::RunReport, String> {
    let reg = registry();
    match reg.iter().find(|p| p.name == file.part) {
        Some(entry) => (entry.replay)(file),
        None => Err(format!("unknown part {}", file.part)),
    }
}
