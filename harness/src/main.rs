//! `rmv` -- property-based / fuzzing verification harness for reactive-mutiny (see /verif/DESIGN.md)

mod chan;
mod driver;
mod lin;
mod payload;
mod props;
mod sched;

use driver::{Cfg, PartResult, Tier};
use std::path::PathBuf;
use std::sync::atomic::{AtomicBool, Ordering};
use std::time::Instant;

pub static QUIET_ALL_PANICS: AtomicBool = AtomicBool::new(false);

fn verif_dir() -> PathBuf {
    std::env::var("VERIF_DIR").map(PathBuf::from).unwrap_or_else(|_| PathBuf::from("/verif"))
}

fn usage() -> ! {
    eprintln!("usage: rmv check <property-id> <quick|thorough>\n       rmv replay <file>");
    std::process::exit(2)
}

fn start_watchdog(limit_s: u64) {
    std::thread::spawn(move || {
        let mut last = driver::PROGRESS.load(Ordering::Relaxed);
        let mut idle = 0u64;
        loop {
            std::thread::sleep(std::time::Duration::from_secs(5));
            let now = driver::PROGRESS.load(Ordering::Relaxed);
            if now == last { idle += 5; } else { idle = 0; last = now; }
            if idle >= limit_s {
                println!("INCONCLUSIVE: watchdog -- no case completed for {limit_s} s (hang inside a case); this is not a violation");
                std::process::exit(2);
            }
        }
    });
}

struct PartEntry {
    property:    &'static str,
    name:        &'static str,
    run:         fn(&Cfg) -> PartResult,
    replay:      fn(&driver::ReplayFile) -> Result<driver::RunReport, String>,
}

macro_rules! part {
    ($prop:expr, $ty:expr) => {
        PartEntry {
            property: $prop,
            name:     driver::Property::part(&$ty),
            run:      |cfg| driver::run_part(&$ty, cfg),
            replay:   |file| driver::replay_part(&$ty, file),
        }
    }
}

fn registry() -> Vec<PartEntry> {
    use props::*;
    vec![
        part!("C01", uni::C01Uni),
        part!("C02", containers::Rings),
        part!("C02", uni::C02Uni),
        part!("C03", uni::C03Multi),
        part!("C04", uni::C04Uni),
        part!("C04", uni::C04Multi),
        part!("C18", containers::Standalone),
    ]
}

fn assumptions_for(id: &str) -> Vec<&'static str> {
    let mut v = vec![
        "controlled-schedule parts explore sequentially consistent interleavings only: one logical thread runs at a time, control changes hands at the library's atomic operations, at verif::yield_point()s and at harness events",
        "compare_exchange_weak never fails spuriously (executed as the strong version)",
    ];
    match id {
        "C18" => v.push("parking_lot's mutex is not instrumented: under the controlled scheduler the parking-lot stack's operations are atomic"),
        _ => {},
    }
    v
}

/// committed regression cases: run first, in every tier
fn run_committed_replays(id: &str, cfg: &Cfg, reg: &[PartEntry]) -> (u32, i32) {
    let dir = verif_dir().join("replays");
    let mut ran = 0;
    let mut exit = 0;
    let Ok(entries) = std::fs::read_dir(&dir) else { return (0, 0) };
    let mut files: Vec<_> = entries.filter_map(|e| e.ok()).map(|e| e.path())
        .filter(|p| p.file_name().and_then(|n| n.to_str()).map(|n| n.starts_with(&format!("{id}-")) && n.ends_with(".json")).unwrap_or(false)).collect();
    files.sort();
    for path in files {
        let Ok(text) = std::fs::read_to_string(&path) else { continue };
        let file: driver::ReplayFile = match serde_json::from_str(&text) { Ok(f) => f, Err(e) => { println!("HARNESS-ERROR cannot parse {}: {e}", path.display()); exit = 2; continue } };
        let Some(entry) = reg.iter().find(|p| p.name == file.part) else { println!("HARNESS-ERROR unknown part in {}", path.display()); exit = 2; continue };
        ran += 1;
        match (entry.replay)(&file) {
            Ok(rep) => match rep.verdict {
                driver::Verdict::Violation { signature, detail } => {
                    let known = cfg.known.iter().any(|k| k.property == id && k.signature == signature);
                    if known {
                        println!("replay {} -> known finding {signature} still present", path.display());
                    } else {
                        println!("VIOLATION property={id} replay={}", path.display());
                        println!("  signature={signature}\n  {detail}");
                        exit = 1;
                    }
                },
                driver::Verdict::Pass => {
                    if file.expect.as_deref() == Some("known") {
                        println!("NOTE: golden witness {} no longer fails: its KNOWN_FINDINGS entry looks stale", path.display());
                    }
                },
                driver::Verdict::Inconclusive(why) => println!("replay {} inconclusive: {why}", path.display()),
            },
            Err(e) => { println!("HARNESS-ERROR replay {}: {e}", path.display()); exit = 2; },
        }
    }
    (ran, exit)
}

fn main() {
    let args: Vec<String> = std::env::args().collect();
    if args.len() < 2 { usage(); }
    match args[1].as_str() {
        "check" => {
            if args.len() < 4 { usage(); }
            let id = args[2].clone();
            let tier = match args[3].as_str() { "quick" => Tier::Quick, "thorough" => Tier::Thorough, _ => usage() };
            let seed: u64 = std::env::var("VERIF_SEED").ok().and_then(|s| s.trim().parse::<i128>().ok()).map(|v| v as u64).unwrap_or(20260929);
            let workers: usize = std::env::var("VERIF_WORKERS").ok().and_then(|s| s.parse().ok()).unwrap_or(16);
            let case_scale: f64 = std::env::var("VERIF_CASE_SCALE").ok().and_then(|s| s.parse().ok()).unwrap_or(1.0);
            let cfg = Cfg {
                property: id.clone(),
                tier,
                seed,
                workers,
                known: driver::load_known(&verif_dir().join("KNOWN_FINDINGS.txt")),
                replays_out: verif_dir().join("evidence").join("replays"),
                case_scale,
                survey: std::env::var("VERIF_SURVEY").is_ok(),
            };
            start_watchdog(180);
            let started = Instant::now();
            let reg = registry();
            let mine: Vec<&PartEntry> = reg.iter().filter(|p| p.property == id).collect();
            if mine.is_empty() {
                eprintln!("unknown property {id}");
                std::process::exit(2);
            }
            let (replays_run, replay_exit) = run_committed_replays(&id, &cfg, &reg);
            let only: Option<String> = std::env::var("VERIF_PART").ok();
            let parts: Vec<PartResult> = mine.iter().filter(|p| only.as_deref().map(|o| o == p.name).unwrap_or(true)).map(|p| (p.run)(&cfg)).collect();
            let evidence = verif_dir().join("evidence").join(format!("{id}.json"));
            let code = driver::conclude(&cfg, parts, started, &assumptions_for(&id), &evidence, replays_run);
            std::process::exit(if replay_exit == 1 || code == 1 { 1 } else { code.max(replay_exit) });
        },
        "replay" => {
            if args.len() < 3 { usage(); }
            let text = std::fs::read_to_string(&args[2]).expect("read replay file");
            let file: driver::ReplayFile = serde_json::from_str(&text).expect("parse replay file");
            sched::VERBOSE_PANICS.store(true, Ordering::Relaxed);
            let rep = replay(&file);
            match rep {
                Ok(rep) => {
                    println!("replay property={} part={} -> {:?}", file.property, file.part, rep.verdict);
                    println!("  {}", rep.summary);
                    match rep.verdict {
                        driver::Verdict::Violation { .. } => { println!("VIOLATION property={} replay={}", file.property, args[2]); std::process::exit(1) },
                        driver::Verdict::Pass => std::process::exit(0),
                        driver::Verdict::Inconclusive(_) => std::process::exit(2),
                    }
                },
                Err(e) => { eprintln!("cannot replay: {e}"); std::process::exit(2) },
            }
        },
        _ => usage(),
    }
}

fn replay(file: &driver::ReplayFile) -> Result<driver::RunReport, String> {
    let reg = registry();
    match reg.iter().find(|p| p.name == file.part) {
        Some(entry) => (entry.replay)(file),
        None => Err(format!("unknown part {}", file.part)),
    }
}
