//! E1: controlled-schedule execution.
//!
//! Logical threads are real OS threads, but exactly one runs at a time. Control changes hands only at
//! scheduling points: immediately before every atomic operation the library performs through the `verif`
//! shim, at `verif::yield_point()` calls and at harness events. An execution is therefore a pure function
//! of (scenario, schedule) and is sequentially consistent.

use reactive_mutiny::verif::{self, Hook, OpKind};
use serde::{Deserialize, Serialize};
use std::any::Any;
use std::cell::RefCell;
use std::panic::{self, AssertUnwindSafe};
use std::sync::atomic::{AtomicBool, Ordering};
use std::sync::{Arc, Condvar, Mutex, Once};
use std::task::{RawWaker, RawWakerVTable, Waker};

pub type Tid = usize;

/// How the next thread to run is picked at every scheduling point
#[derive(Clone, Debug, Serialize, Deserialize, PartialEq)]
pub enum Schedule {
    /// absolute `(step, tid)` pairs, sorted by step: "at scheduling point #step, switch to tid (if it may run)".
    /// Otherwise the running thread continues until it blocks; then the lowest-numbered runnable thread runs.
    /// This is also the universal replay format (the realised trace of any run).
    Sparse(Vec<(u32, u8)>),
    /// PCT-style: random thread priorities; at `depth-1` random change points the running thread's priority drops below all
    Pct { seed: u64, depth: u8, est_len: u32 },
    /// dense random walk: at every scheduling point, with probability `per_1024/1024`, a random runnable thread is picked
    Random { seed: u64, per_1024: u16 },
}

#[derive(Clone, Debug, PartialEq, Serialize, Deserialize)]
pub enum EndState {
    /// every logical thread ran to the end of its body (parked ones were released at quiescence)
    Completed,
    /// nothing can run: the listed threads re-execute a failing operation (address given) that nobody will ever change
    Stall { stuck: Vec<(usize, usize)>, parked: Vec<usize> },
    /// the scheduling-point budget was exhausted (inconclusive)
    Budget,
    /// a logical thread panicked (message given)
    Panicked { tid: usize, msg: String },
    /// the running thread made no scheduling point for 8 s of wall-clock time: it is blocked inside a primitive the harness does not
    /// instrument (e.g. a blocking crossbeam send) that only another thread could end -- and the others are waiting for their turn
    Blocked { tid: usize },
}

/// panic payload used to unwind logical threads when a run is aborted
pub struct AbortToken;

#[derive(Clone, Copy, PartialEq, Eq, Debug)]
enum Status { Runnable, Parked, Finished }

#[derive(Clone, Copy, PartialEq, Eq, Debug)]
pub enum ParkResult {
    /// a wake arrived: poll again
    Woken,
    /// the run reached quiescence while this thread was parked: nothing will ever wake it
    Quiescent,
}

const STUCK_AT: u32 = 2;   // consecutive failures (same address, nobody wrote in between) to be deprioritized
const DEAD_AT:  u32 = 8;
const FAIRNESS_WINDOW: u32 = 48;   // scheduling points inside one operation after which the others get a turn   // ... to be considered spinning for ever

struct Inner {
    status:       Vec<Status>,
    exited:       Vec<bool>,
    current:      usize,           // usize::MAX: nobody (before start / after the end)
    step:         u32,
    max_steps:    u32,
    deadline:     std::time::Instant,
    write_epoch:  u64,
    last_fail:    Vec<Option<(usize, u64)>>,
    fail_count:   Vec<u32>,
    wake_pending: Vec<bool>,
    draining:     bool,
    over:         Vec<bool>,
    abort:        Option<EndState>,
    trace:        Vec<(u32, u8)>,
    schedule:     Schedule,
    sparse_pos:   usize,
    rng:          u64,
    prio:         Vec<u32>,
    change_pts:   Vec<u32>,
    next_low:     u32,
    ticks:        u64,
    /// number of switches that happened while the switched-out thread was inside a harness-declared operation
    switches_inside_ops: u32,
    in_op:        Vec<bool>,
    wakes:        Vec<Vec<(u64, usize)>>,   // per target tid: (tick, waker thread)
    /// wakes on a waker none of whose library-held clones is alive any more (bookkeeping used after free)
    dead_waker_uses: u32,
    waker_lib_clones: Vec<i64>,
    /// per waker: the thread it belongs to, and whether that thread has switched to a newer waker since
    waker_owner: Vec<usize>,
    waker_superseded: Vec<bool>,
    dead_waker_uses_superseded: u32,
    /// scheduling points executed by each thread itself
    steps_of:     Vec<u32>,
    /// scheduling points executed by each thread while no *other* thread was inside a harness-declared operation
    solo_steps:   Vec<u32>,
    /// ... since its current harness-declared operation started (bounded fairness for retry loops that keep writing)
    steps_in_op:  Vec<u32>,
    /// threads that asked to let the others run first (harness-level back-off of a retry loop)
    yielding:     Vec<bool>,
    fair_next:    Vec<u32>,
    fair_turn:    Vec<u32>,
    /// (tick, thread, tag) of the library's yield points whose tag is in `MARK_TAGS` (mechanism-level facts for the classifiers)
    marks:        Vec<(u64, usize, &'static str)>,
}

/// yield-point tags recorded with their logical time: the bounds of the live-listener-list mutation window (streams_manager.rs)
const MARK_TAGS: [&str; 4] = ["sm.create.begin", "sm.drop.begin", "sm.sync.done", "sm.used_streams.read"];

pub struct Sched {
    m:   Mutex<Inner>,
    cvs: Vec<Condvar>,
    ctl: Condvar,
    n:   usize,
}

fn xorshift(s: &mut u64) -> u64 {
    let mut x = *s;
    x ^= x << 13;
    x ^= x >> 7;
    x ^= x << 17;
    *s = x;
    x.wrapping_mul(0x2545F4914F6CDD1D)
}

impl Inner {
    fn stuck(&self, t: usize) -> bool { self.fail_count[t] >= STUCK_AT }
    fn dead(&self, t: usize) -> bool { self.fail_count[t] >= DEAD_AT }
    fn fail_epoch_passed(&self, t: usize) -> bool {
        match self.last_fail[t] { Some((_, e)) => self.write_epoch > e, None => true }
    }
    /// may `t` run usefully right now?
    fn eligible(&self, t: usize) -> bool {
        self.status[t] == Status::Runnable && !self.yielding[t] && (!self.stuck(t) || self.fail_epoch_passed(t))
    }
    fn eligible_list(&self) -> Vec<usize> {
        (0..self.status.len()).filter(|&t| self.eligible(t)).collect()
    }

    /// picks who runs next, given `cur` is at a scheduling point (or has just blocked/finished).
    /// `None`: nobody can run.
    fn choose(&mut self, cur: usize) -> Option<usize> {
        let elig = self.eligible_list();
        if elig.is_empty() {
            // grace: re-run threads that look stuck but were not yet seen failing often enough to be sure
            let graced = (0..self.status.len()).find(|&t| self.status[t] == Status::Runnable && !self.dead(t));
            return graced;
        }
        let cur_ok = cur < self.status.len() && elig.contains(&cur);
        if self.draining {
            return Some(if cur_ok { cur } else { elig[0] });
        }
        let step = self.step;
        match &self.schedule {
            Schedule::Sparse(list) => {
                let mut pick = None;
                while self.sparse_pos < list.len() && list[self.sparse_pos].0 <= step {
                    if list[self.sparse_pos].0 == step {
                        let t = list[self.sparse_pos].1 as usize;
                        if elig.contains(&t) { pick = Some(t); }
                    }
                    self.sparse_pos += 1;
                }
                Some(pick.unwrap_or(if cur_ok { cur } else { elig[0] }))
            },
            Schedule::Pct { .. } => {
                if cur_ok && self.change_pts.contains(&step) {
                    self.prio[cur] = self.next_low;
                    self.next_low = self.next_low.saturating_sub(1);
                }
                elig.iter().copied().max_by_key(|&t| self.prio[t])
            },
            Schedule::Random { per_1024, .. } => {
                let per = *per_1024 as u64;
                let r = xorshift(&mut self.rng);
                if cur_ok && (r & 1023) >= per {
                    Some(cur)
                } else {
                    let i = ((r >> 10) % elig.len() as u64) as usize;
                    Some(elig[i])
                }
            },
        }
    }
}

thread_local! {
    static CTX: RefCell<Option<(Arc<Sched>, usize)>> = const { RefCell::new(None) };
}

static QUIET_HOOK: Once = Once::new();
pub static VERBOSE_PANICS: AtomicBool = AtomicBool::new(false);
/// runs that ended `Blocked` in this process (each costs seconds of wall-clock time and leaves a thread behind)
pub static BLOCKED_RUNS: std::sync::atomic::AtomicU32 = std::sync::atomic::AtomicU32::new(0);
/// debugging aid (RMV_TRACE=1 with `replay`): prints every scheduling point
pub static TRACE_OPS: AtomicBool = AtomicBool::new(false);
static TRACE_ADDRS: Mutex<Vec<usize>> = Mutex::new(Vec::new());
fn addr_name(a: usize) -> String { if a == 0 { return "-".into(); } let mut g = TRACE_ADDRS.lock().unwrap(); let i = match g.iter().position(|x| *x == a) { Some(i) => i, None => { g.push(a); g.len() - 1 } }; format!("A{i}") }

pub fn install_quiet_panic_hook() {
    QUIET_HOOK.call_once(|| {
        let default = panic::take_hook();
        panic::set_hook(Box::new(move |info| {
            if info.payload().is::<AbortToken>() { return; }
            crate::props::rt::note_panic(info);
            if std::thread::current().name().map(|n| n.starts_with("rtcase-")).unwrap_or(false) && !VERBOSE_PANICS.load(Ordering::Relaxed) { return; }
            let managed = CTX.try_with(|c| c.borrow().is_some()).unwrap_or(false);
            if managed && !VERBOSE_PANICS.load(Ordering::Relaxed) { return; }
            if crate::QUIET_ALL_PANICS.load(Ordering::Relaxed) { return; }
            default(info);
        }));
    });
}

struct ThreadHook { sched: Arc<Sched>, tid: usize }

impl Hook for ThreadHook {
    fn before(&self, addr: usize, kind: OpKind, tag: &'static str) {
        self.sched.sched_point(self.tid);
        if kind == OpKind::Yield && MARK_TAGS.contains(&tag) { let mut g = self.sched.m.lock().unwrap(); g.ticks += 1; let t = g.ticks; g.marks.push((t, self.tid, tag)); }
        if TRACE_OPS.load(Ordering::Relaxed) { println!("    step {:4} T{} {:?} {} {}", self.sched.step(), self.tid, kind, addr_name(addr), tag); }
    }
    fn after(&self, addr: usize, kind: OpKind, wrote: bool, failed: bool) {
        if TRACE_OPS.load(Ordering::Relaxed) && !matches!(kind, OpKind::Yield) { println!("              -> T{} {:?} {} wrote={} failed={}", self.tid, kind, addr_name(addr), wrote, failed); }
        let mut g = self.sched.m.lock().unwrap();
        let t = self.tid;
        if wrote { g.write_epoch += 1; }
        if failed {
            let key = (addr, g.write_epoch);
            if g.last_fail[t] == Some(key) {
                g.fail_count[t] += 1;
            } else {
                g.last_fail[t] = Some(key);
                g.fail_count[t] = 1;
            }
        } else if !matches!(kind, OpKind::Load | OpKind::Yield) {
            g.last_fail[t] = None;
            g.fail_count[t] = 0;
        }
    }
}

pub struct Outcome {
    pub end:   EndState,
    pub trace: Vec<(u32, u8)>,
    pub steps: u32,
    pub switches_inside_ops: u32,
    pub wakes: Vec<Vec<(u64, usize)>>,
    pub dead_waker_uses: u32,
    /// ... of which: the task had switched to a newer waker (the channel dropped the old one while replacing it)
    pub dead_waker_uses_superseded: u32,
    pub marks: Vec<(u64, usize, &'static str)>,
}

impl Sched {
    pub fn new(n: usize, schedule: Schedule, max_steps: u32) -> Arc<Self> {
        install_quiet_panic_hook();
        let mut rng = 0x9E3779B97F4A7C15u64;
        let mut prio = vec![0u32; n];
        let mut change_pts = vec![];
        match &schedule {
            Schedule::Pct { seed, depth, est_len } => {
                rng ^= *seed | 1;
                // random distinct priorities n+depth.. ; change points get priorities depth-1..1
                let mut order: Vec<usize> = (0..n).collect();
                for i in (1..n).rev() {
                    let j = (xorshift(&mut rng) % (i as u64 + 1)) as usize;
                    order.swap(i, j);
                }
                for (rank, &t) in order.iter().enumerate() { prio[t] = 1000 + rank as u32; }
                for _ in 1..*depth {
                    change_pts.push((xorshift(&mut rng) % (*est_len).max(1) as u64) as u32);
                }
            },
            Schedule::Random { seed, .. } => { rng ^= *seed | 1; },
            Schedule::Sparse(_) => {},
        }
        Arc::new(Sched {
            m: Mutex::new(Inner {
                status: vec![Status::Runnable; n],
                exited: vec![false; n],
                current: usize::MAX,
                step: 0,
                max_steps,
                deadline: std::time::Instant::now() + std::time::Duration::from_secs(15),
                write_epoch: 0,
                last_fail: vec![None; n],
                fail_count: vec![0; n],
                wake_pending: vec![false; n],
                draining: false,
                over: vec![false; n],
                abort: None,
                trace: vec![],
                schedule,
                sparse_pos: 0,
                rng,
                prio,
                change_pts,
                next_low: 900,
                ticks: 0,
                switches_inside_ops: 0,
                in_op: vec![false; n],
                wakes: vec![vec![]; n],
                dead_waker_uses: 0,
                waker_lib_clones: vec![],
                waker_owner: vec![],
                waker_superseded: vec![],
                dead_waker_uses_superseded: 0,
                yielding: vec![false; n],
                fair_next: vec![FAIRNESS_WINDOW; n],
                fair_turn: vec![0; n],
                steps_of: vec![0; n],
                steps_in_op: vec![0; n],
                solo_steps: vec![0; n],
                marks: vec![],
            }),
            cvs: (0..n).map(|_| Condvar::new()).collect(),
            ctl: Condvar::new(),
            n,
        })
    }

    fn abort_now(&self, g: &mut Inner, reason: EndState) {
        if g.abort.is_none() { g.abort = Some(reason); }
        g.current = usize::MAX;
        for cv in &self.cvs { cv.notify_all(); }
        self.ctl.notify_all();
    }

    /// hands the baton over to `next` and (unless `leaving`) waits until it comes back
    fn switch_and_wait(&self, mut g: std::sync::MutexGuard<'_, Inner>, me: usize, next: usize, leaving: bool) {
        if next != me {
            let step = g.step;
            g.trace.push((step, next as u8));
            if g.in_op[me] && !leaving { g.switches_inside_ops += 1; }
            g.current = next;
            self.cvs[next].notify_one();
        }
        if leaving { return; }
        while g.current != me && g.abort.is_none() {
            g = self.cvs[me].wait(g).unwrap();
        }
        if g.abort.is_some() {
            drop(g);
            panic::panic_any(AbortToken);
        }
    }

    /// called by `me` when nobody can run any more
    fn nobody_can_run(&self, g: &mut Inner) {
        let n = g.status.len();
        let parked: Vec<usize> = (0..n).filter(|&t| g.status[t] == Status::Parked).collect();
        let stuck: Vec<(usize, usize)> = (0..n).filter(|&t| g.status[t] == Status::Runnable)
            .map(|t| (t, g.last_fail[t].map(|f| f.0).unwrap_or(0))).collect();
        if !stuck.is_empty() {
            self.abort_now(g, EndState::Stall { stuck, parked });
        } else if !parked.is_empty() && !g.draining {
            // quiescence: release the parked threads, one at a time, telling them nothing will wake them
            g.draining = true;
            for &t in &parked {
                g.status[t] = Status::Runnable;
                g.over[t] = true;
            }
        } else {
            // everybody finished
            g.current = usize::MAX;
            self.ctl.notify_all();
        }
    }

    /// a scheduling point of logical thread `me`
    pub fn sched_point(&self, me: usize) {
        if std::thread::panicking() { return; }     // unwinding (aborted run): never panic again, never block
        let mut g = self.m.lock().unwrap();
        if g.abort.is_some() {
            drop(g);
            panic::panic_any(AbortToken);
        }
        if g.current != me {
            // not managed right now (e.g. teardown code running after the run ended): pass through
            return;
        }
        g.step += 1;
        g.steps_of[me] += 1;
        g.steps_in_op[me] += 1;
        if !(0..g.in_op.len()).any(|t| t != me && g.in_op[t]) { g.solo_steps[me] += 1; }
        for t in 0..g.yielding.len() { if t != me { g.yielding[t] = false; } }
        if g.step > g.max_steps || (g.step % 64 == 0 && std::time::Instant::now() > g.deadline) {
            // (the wall-clock part catches un-instrumented waiting inside the library -- `thread::sleep` retry loops -- that make a run crawl)
            self.abort_now(&mut g, EndState::Budget);
            drop(g);
            panic::panic_any(AbortToken);
        }
        // bounded fairness: a thread that has executed many scheduling points inside one operation (a retry loop that keeps
        // writing, so it never looks stuck) lets the others run before it continues
        // (the distance between two such turns varies, so a retry loop of fixed length is not always interrupted at the same place --
        //  e.g. always while it holds a spin lock the other thread needs)
        if g.in_op[me] && g.steps_in_op[me] >= g.fair_next[me] && !g.draining {
            g.fair_turn[me] += 1;
            let turn = g.fair_turn[me];
            g.fair_next[me] = g.steps_in_op[me] + FAIRNESS_WINDOW - 11 + (turn * 7) % 23;
            let others: Vec<usize> = g.eligible_list().into_iter().filter(|&t| t != me).collect();
            if !others.is_empty() {
                let next = others[turn as usize % others.len()];
                return self.switch_and_wait(g, me, next, false);
            }
        }
        match g.choose(me) {
            Some(next) => self.switch_and_wait(g, me, next, false),
            None => {
                // `me` is runnable but spinning for ever, and nobody else can run
                self.nobody_can_run(&mut g);
                if g.abort.is_some() {
                    drop(g);
                    panic::panic_any(AbortToken);
                }
                // (draining just started): somebody became runnable
                match g.choose(me) {
                    Some(next) => self.switch_and_wait(g, me, next, false),
                    None => { self.abort_now(&mut g, EndState::Stall { stuck: vec![(me, 0)], parked: vec![] }); drop(g); panic::panic_any(AbortToken); },
                }
            },
        }
    }

    /// `me` is in a retry loop and lets the other threads run first. `false`: nobody else can run (retrying is pointless)
    pub fn backoff(&self, me: usize) -> bool {
        if std::thread::panicking() { return false; }
        let mut g = self.m.lock().unwrap();
        if g.abort.is_some() { drop(g); panic::panic_any(AbortToken); }
        if g.current != me { return false; }
        let others = g.eligible_list().into_iter().any(|t| t != me);
        if !others { return false; }
        g.step += 1;
        if g.step > g.max_steps {
            self.abort_now(&mut g, EndState::Budget);
            drop(g);
            panic::panic_any(AbortToken);
        }
        g.yielding[me] = true;
        match g.choose(me) {
            Some(next) if next != me => { self.switch_and_wait(g, me, next, false); true },
            _ => { g.yielding[me] = false; false },
        }
    }

    /// `me` found nothing to do and waits for its waker to be invoked
    pub fn park(&self, me: usize) -> ParkResult {
        if std::thread::panicking() { return ParkResult::Quiescent; }
        let mut g = self.m.lock().unwrap();
        if g.abort.is_some() { drop(g); panic::panic_any(AbortToken); }
        if g.over[me] { return ParkResult::Quiescent; }
        if g.wake_pending[me] {
            g.wake_pending[me] = false;
            return ParkResult::Woken;
        }
        g.step += 1;
        g.status[me] = Status::Parked;
        loop {
            match g.choose(me) {
                Some(next) => {
                    debug_assert!(next != me || g.status[me] == Status::Runnable);
                    self.switch_and_wait(g, me, next, false);
                    break;
                },
                None => {
                    self.nobody_can_run(&mut g);
                    if g.abort.is_some() { drop(g); panic::panic_any(AbortToken); }
                    // draining started: `me` (or another parked thread) is runnable again
                }
            }
        }
        let mut g = self.m.lock().unwrap();
        if g.over[me] { return ParkResult::Quiescent; }
        g.wake_pending[me] = false;
        ParkResult::Woken
    }

    /// a waker targeting `target` was invoked by the calling logical thread
    fn wake(&self, target: usize, by: usize) {
        let mut g = self.m.lock().unwrap();
        g.ticks += 1;
        let tick = g.ticks;
        g.wakes[target].push((tick, by));
        if g.status[target] == Status::Parked {
            g.status[target] = Status::Runnable;
        } else {
            g.wake_pending[target] = true;
        }
    }

    fn finish(&self, me: usize, panicked: Option<String>) {
        let mut g = self.m.lock().unwrap();
        g.exited[me] = true;
        if let Some(msg) = panicked {
            self.abort_now(&mut g, EndState::Panicked { tid: me, msg });
        }
        if g.abort.is_some() {
            if g.exited.iter().all(|&e| e) { self.ctl.notify_all(); }
            return;
        }
        g.status[me] = Status::Finished;
        g.step += 1;
        loop {
            match g.choose(me) {
                Some(next) => { self.switch_and_wait(g, me, next, true); return; },
                None => {
                    let was_draining = g.draining;
                    self.nobody_can_run(&mut g);
                    if g.abort.is_some() || g.current == usize::MAX { return; }
                    if was_draining { g.current = usize::MAX; self.ctl.notify_all(); return; }
                },
            }
        }
    }

    /// global, totally ordered event counter (call / return stamps of the history log)
    pub fn tick(&self) -> u64 {
        let mut g = self.m.lock().unwrap();
        g.ticks += 1;
        g.ticks
    }

    pub fn step(&self) -> u32 { self.m.lock().unwrap().step }
    pub fn steps_of(&self, tid: usize) -> u32 { self.m.lock().unwrap().steps_of[tid] }
    pub fn solo_steps_of(&self, tid: usize) -> u32 { self.m.lock().unwrap().solo_steps[tid] }

    fn set_in_op(&self, me: usize, v: bool) { let mut g = self.m.lock().unwrap(); g.in_op[me] = v; g.steps_in_op[me] = 0; g.fair_next[me] = FAIRNESS_WINDOW; g.fair_turn[me] = 0; }

    /// Runs the logical threads to the end of the run and returns what happened
    pub fn execute(self: &Arc<Self>, bodies: Vec<Box<dyn FnOnce(&ThreadCtx) + Send>>) -> Outcome {
        assert_eq!(bodies.len(), self.n);
        let mut handles = vec![];
        for (tid, body) in bodies.into_iter().enumerate() {
            let sched = Arc::clone(self);
            let h = std::thread::Builder::new()
                .stack_size(512 * 1024)
                .spawn(move || {
                    let ctx = ThreadCtx { sched: Arc::clone(&sched), tid };
                    CTX.with(|c| *c.borrow_mut() = Some((Arc::clone(&sched), tid)));
                    verif::install_hook(Some(Arc::new(ThreadHook { sched: Arc::clone(&sched), tid })));
                    let result = panic::catch_unwind(AssertUnwindSafe(|| {
                        // wait for the first turn
                        {
                            let mut g = sched.m.lock().unwrap();
                            while g.current != tid && g.abort.is_none() {
                                g = sched.cvs[tid].wait(g).unwrap();
                            }
                            if g.abort.is_some() { drop(g); panic::panic_any(AbortToken); }
                        }
                        body(&ctx);
                    }));
                    verif::install_hook(None);
                    let panicked = match result {
                        Ok(()) => None,
                        Err(payload) => if payload.is::<AbortToken>() { None } else { Some(panic_message(&payload)) },
                    };
                    sched.finish(tid, panicked);
                    CTX.with(|c| *c.borrow_mut() = None);
                })
                .expect("spawn logical thread");
            handles.push(h);
        }
        // start
        {
            let mut g = self.m.lock().unwrap();
            let first = g.choose(usize::MAX).expect("no runnable thread at start");
            g.trace.push((0, first as u8));
            g.current = first;
            self.cvs[first].notify_one();
            // wait for the end
            let mut last = (g.step, std::time::Instant::now());
            let mut blocked: Option<usize> = None;
            loop {
                let all_exited = g.exited.iter().all(|&e| e);
                if all_exited { break; }
                g = self.ctl.wait_timeout(g, std::time::Duration::from_millis(200)).unwrap().0;
                if g.step != last.0 { last = (g.step, std::time::Instant::now()); }
                else if blocked.is_none() && g.abort.is_none() && g.current < self.n && last.1.elapsed() > std::time::Duration::from_secs(8) {
                    let tid = g.current;
                    blocked = Some(tid);
                    BLOCKED_RUNS.fetch_add(1, Ordering::Relaxed);
                    self.abort_now(&mut g, EndState::Blocked { tid });
                    last = (g.step, std::time::Instant::now());
                }
                else if let Some(tid) = blocked {
                    // everybody else unwinds; the blocked thread cannot: it is left behind (detached)
                    if (0..self.n).all(|t| t == tid || g.exited[t]) || last.1.elapsed() > std::time::Duration::from_secs(5) { break; }
                }
            }
            if let Some(tid) = blocked { let h = handles.remove(tid); std::mem::drop(h); }
        }
        for h in handles { let _ = h.join(); }
        let g = self.m.lock().unwrap();
        Outcome {
            end: g.abort.clone().unwrap_or(EndState::Completed),
            trace: g.trace.clone(),
            steps: g.step,
            switches_inside_ops: g.switches_inside_ops,
            wakes: g.wakes.clone(),
            dead_waker_uses: g.dead_waker_uses,
            dead_waker_uses_superseded: g.dead_waker_uses_superseded,
            marks: g.marks.clone(),
        }
    }
}

pub fn panic_message(payload: &Box<dyn Any + Send>) -> String {
    if let Some(s) = payload.downcast_ref::<&str>() { s.to_string() }
    else if let Some(s) = payload.downcast_ref::<String>() { s.clone() }
    else { "<non-string panic payload>".to_string() }
}

/// What a logical thread's body gets to talk to the scheduler
pub struct ThreadCtx {
    pub sched: Arc<Sched>,
    pub tid:   usize,
}

impl ThreadCtx {
    /// harness-level scheduling point
    pub fn point(&self, tag: &'static str) { verif::yield_point(tag); }
    pub fn tick(&self) -> u64 { self.sched.tick() }
    /// scheduling points this thread itself has executed so far
    pub fn own_steps(&self) -> u32 { self.sched.steps_of(self.tid) }
    /// ... of which: executed while no other thread was inside an operation (steps that cannot be explained by waiting for a peer's operation in progress)
    pub fn solo_steps(&self) -> u32 { self.sched.solo_steps_of(self.tid) }
    pub fn park(&self) -> ParkResult { self.sched.park(self.tid) }
    /// lets the other threads run first; `false` if nobody else can run
    pub fn backoff(&self) -> bool { self.sched.backoff(self.tid) }
    /// brackets a harness-declared operation: switches away from this thread while inside are counted
    pub fn op<R>(&self, f: impl FnOnce() -> R) -> R {
        self.sched.set_in_op(self.tid, true);
        let r = f();
        self.sched.set_in_op(self.tid, false);
        r
    }
    /// Creates a fresh waker (a new identity: `will_wake()` is false against any other) that, when invoked, makes
    /// this logical thread runnable again. The harness' root handle is never dropped through the vtable, so every
    /// vtable clone / drop is the library's: a wake with no library-held clone alive is bookkeeping used after free.
    pub fn new_waker(&self) -> std::mem::ManuallyDrop<Waker> {
        let idx = {
            let mut g = self.sched.m.lock().unwrap();
            for i in 0..g.waker_owner.len() { if g.waker_owner[i] == self.tid { g.waker_superseded[i] = true; } }
            g.waker_lib_clones.push(0);
            g.waker_owner.push(self.tid);
            g.waker_superseded.push(false);
            g.waker_lib_clones.len() - 1
        };
        let data = ((idx << 8) | (self.tid & 0xff)) as *const ();
        std::mem::ManuallyDrop::new(unsafe { Waker::from_raw(RawWaker::new(data, &WAKER_VTABLE)) })
    }
}

fn with_ctx<R>(f: impl FnOnce(&Arc<Sched>, usize) -> R) -> Option<R> {
    CTX.try_with(|c| c.borrow().as_ref().map(|(s, t)| f(s, *t))).ok().flatten()
}

unsafe fn wk_clone(data: *const ()) -> RawWaker {
    let idx = (data as usize) >> 8;
    with_ctx(|s, _| { let mut g = s.m.lock().unwrap(); if idx < g.waker_lib_clones.len() { g.waker_lib_clones[idx] += 1; } });
    RawWaker::new(data, &WAKER_VTABLE)
}
unsafe fn wk_wake(data: *const ()) {
    wk_wake_by_ref(data);
    wk_drop(data);
}
unsafe fn wk_wake_by_ref(data: *const ()) {
    let target = (data as usize) & 0xff;
    let idx = (data as usize) >> 8;
    // a preemption between loading the waker from its slot and using it
    verif::yield_point("waker.wake");
    with_ctx(|s, me| {
        let superseded = {
            let mut g = s.m.lock().unwrap();
            if idx < g.waker_lib_clones.len() && g.waker_lib_clones[idx] <= 0 { g.dead_waker_uses += 1; if g.waker_superseded[idx] { g.dead_waker_uses_superseded += 1; } }
            idx < g.waker_superseded.len() && g.waker_superseded[idx]
        };
        // a waker the task has replaced by a fresh one belongs to a context that no longer polls the stream: invoking it wakes nobody
        if !superseded { s.wake(target, me); }
    });
}
unsafe fn wk_drop(data: *const ()) {
    let idx = (data as usize) >> 8;
    with_ctx(|s, _| { let mut g = s.m.lock().unwrap(); if idx < g.waker_lib_clones.len() { g.waker_lib_clones[idx] -= 1; } });
}

static WAKER_VTABLE: RawWakerVTable = RawWakerVTable::new(wk_clone, wk_wake, wk_wake_by_ref, wk_drop);

/// A waker that does nothing -- for futures polled by hand
pub fn noop_waker() -> Waker {
    unsafe fn c(_: *const ()) -> RawWaker { RawWaker::new(std::ptr::null(), &NOOP_VTABLE) }
    unsafe fn n(_: *const ()) {}
    static NOOP_VTABLE: RawWakerVTable = RawWakerVTable::new(c, n, n, n);
    unsafe { Waker::from_raw(RawWaker::new(std::ptr::null(), &NOOP_VTABLE)) }
}

/// Runs `f` as the single logical thread of a fresh scheduler: library code that could spin for ever (a corrupted ring, a lock
/// that is never released) ends in a decided `Stall` / `Budget` verdict instead of hanging the harness.
/// On an abnormal end whatever `f` owned is leaked (its destructors might spin as well).
pub fn guarded<R: Send + 'static>(max_steps: u32, f: impl FnOnce() -> R + Send + 'static) -> Result<R, EndState> {
    let sched = Sched::new(1, Schedule::Sparse(vec![]), max_steps);
    let slot: Arc<Mutex<Option<R>>> = Arc::new(Mutex::new(None));
    let slot2 = Arc::clone(&slot);
    let ledger = crate::payload::current_ledger();
    let body: Box<dyn FnOnce(&ThreadCtx) + Send> = Box::new(move |_ctx: &ThreadCtx| {
        crate::payload::set_current_ledger(ledger);
        let r = f();
        *slot2.lock().unwrap() = Some(r);
    });
    let out = sched.execute(vec![body]);
    let got = slot.lock().unwrap().take();
    match (out.end, got) {
        (EndState::Completed, Some(r)) => Ok(r),
        (EndState::Completed, None) => Err(EndState::Panicked { tid: 0, msg: "guarded section produced no result".into() }),
        (other, _) => Err(other),
    }
}
