//! Generic driver: proptest generation over worker threads, classification of violations against the
//! known-findings file, shrinking, schedule minimisation, replay confirmation, evidence.

use crate::sched::Schedule;
use proptest::strategy::{BoxedStrategy, Strategy};
use proptest::test_runner::{Config, RngSeed, TestCaseError, TestError, TestRunner};
use serde::{de::DeserializeOwned, Serialize};
use serde_json::{json, Value};
use std::collections::{BTreeMap, HashSet};
use std::fmt::Debug;
use std::sync::atomic::{AtomicBool, AtomicU64, Ordering};
use std::sync::Mutex;
use std::time::Instant;

#[derive(Clone, Copy, Debug, PartialEq, Eq)]
pub enum Tier { Quick, Thorough }

impl Tier {
    pub fn name(self) -> &'static str { match self { Tier::Quick => "quick", Tier::Thorough => "thorough" } }
}

#[derive(Clone, Debug)]
pub enum Verdict {
    Pass,
    /// `signature` identifies the root cause class (no spaces); `detail` is free text
    Violation { signature: String, detail: String },
    /// budget exceeded, harness limitation, ...: never a violation
    Inconclusive(String),
}

#[derive(Clone, Debug)]
pub struct RunReport {
    pub verdict:     Verdict,
    pub nontrivial:  bool,
    pub classes:     Vec<String>,
    /// hash of (scenario, realised trace): what `distinct_nontrivial` counts
    pub fingerprint: u64,
    /// realised trace, when the case ran under the controlled scheduler
    pub trace:       Option<Vec<(u32, u8)>>,
    /// a short rendering of what happened (goes into the evidence samples)
    pub summary:     String,
}

impl RunReport {
    pub fn pass() -> Self { RunReport { verdict: Verdict::Pass, nontrivial: false, classes: vec![], fingerprint: 0, trace: None, summary: String::new() } }
}

pub trait Property: Sync {
    type Case: Debug + Clone + Serialize + DeserializeOwned + Send + 'static;
    /// name of this part (unique within the property)
    fn part(&self) -> &'static str;
    fn strategy(&self, tier: Tier) -> BoxedStrategy<Self::Case>;
    fn cases(&self, tier: Tier) -> u32;
    fn run(&self, case: &Self::Case) -> RunReport;
    /// `run`, with a panic of the harness itself (outside the logical threads) turned into an inconclusive report
    fn run_guarded(&self, case: &Self::Case) -> RunReport {
        match std::panic::catch_unwind(std::panic::AssertUnwindSafe(|| self.run(case))) {
            // the environment, not the library: the mmap log channel maps a large region per channel and the kernel refuses it (ENOMEM) when too many
            // processes on the machine hold such mappings at once -- whatever verdict a part derived from that panic, the case is inconclusive
            Ok(mut r) => {
                if let Verdict::Violation { detail, .. } = &r.verdict {
                    if detail.contains("couldn't mmap file") && detail.contains("Cannot allocate memory") { r.verdict = Verdict::Inconclusive("environment: mmap refused (ENOMEM)".into()); r.nontrivial = false; }
                }
                r
            },
            Err(p) => {
                let msg = crate::sched::panic_message(&p);
                let mut r = RunReport::pass();
                r.verdict = Verdict::Inconclusive(format!("harness-panic: {}", msg.chars().take(120).collect::<String>()));
                r
            },
        }
    }
    /// how cases are generated and what makes one non-trivial / distinct
    fn rule(&self) -> String;
    /// access to the schedule inside a case, if it has one (for trace minimisation)
    fn schedule_mut<'a>(&self, _case: &'a mut Self::Case) -> Option<&'a mut Schedule> { None }
    /// how often a case is re-executed before "does not fail" is believed (> 1 for cases whose execution the harness does not
    /// fully control: workloads on a multi-thread tokio runtime)
    fn attempts(&self, _case: &Self::Case) -> u32 { 1 }
    /// structure-aware decoding of one fuzzer input into a case of this part's generator domain (parts without one: the input seeds the generator)
    fn decode(&self, _u: &mut arbitrary::Unstructured<'_>) -> Option<Self::Case> { None }
    /// what `./check.sh replay` and the committed regression replays execute (parts whose executions are not reproducible from the case
    /// re-execute the workload many times here; everybody else just runs the case)
    fn replay(&self, case: &Self::Case) -> RunReport { self.run_guarded(case) }
    /// cases enumerated exhaustively before the random search (bounded-exhaustive parts)
    fn exhaustive(&self, _tier: Tier) -> Option<Box<dyn Iterator<Item = Self::Case> + '_>> { None }
}

pub struct Cfg {
    pub property: String,
    pub tier:     Tier,
    pub seed:     u64,
    pub workers:  usize,
    pub known:    Vec<KnownFinding>,
    pub replays_out: std::path::PathBuf,
    pub case_scale: f64,
    /// triage aid (VERIF_SURVEY=1): every violation is only counted by signature, the search never stops
    pub survey: bool,
    pub inflight_every_case: bool,
}

#[derive(Clone, Debug)]
pub struct KnownFinding {
    pub property:  String,
    pub signature: String,
    pub text:      String,
}

pub fn load_known(path: &std::path::Path) -> Vec<KnownFinding> {
    let mut out = vec![];
    let Ok(content) = std::fs::read_to_string(path) else { return out; };
    for line in content.lines() {
        let line = line.trim();
        let Some(rest) = line.strip_prefix("known:") else { continue; };
        let mut property = String::new();
        let mut signature = String::new();
        let mut text = vec![];
        for tok in rest.split_whitespace() {
            if let Some(p) = tok.strip_prefix("property=") { if property.is_empty() { property = p.to_string(); continue; } }
            if let Some(s) = tok.strip_prefix("sig=") { if signature.is_empty() { signature = s.to_string(); continue; } }
            text.push(tok);
        }
        if !property.is_empty() && !signature.is_empty() {
            out.push(KnownFinding { property, signature, text: text.join(" ") });
        }
    }
    out
}

#[derive(Default)]
pub struct PartResult {
    pub part:          String,
    pub rule:          String,
    pub evaluations:   u64,
    pub nontrivial:    HashSet<u64>,
    pub classes:       BTreeMap<String, u64>,
    pub samples:       Vec<Value>,
    pub known_hits:    BTreeMap<String, u64>,
    pub inconclusive:  u64,
    pub inconclusive_reasons: BTreeMap<String, u64>,
    pub violation:     Option<(String, String, std::path::PathBuf)>,   // signature, detail, replay path
    pub harness_error: Option<String>,
    pub exhaustive:    Option<u64>,
}

pub static PROGRESS: AtomicU64 = AtomicU64::new(0);
/// the first violation a worker observed, written out at once (unshrunk): if other workers then hang inside the library (e.g. a blocking
/// wait the harness cannot interrupt), the watchdog reports this one instead of turning the run into 'inconclusive'
pub static PENDING_VIOLATION: Mutex<Option<(String, std::path::PathBuf, String, String)>> = Mutex::new(None);

fn note_first_violation<C: Serialize>(cfg: &Cfg, part: &str, case: &C, signature: &str, detail: &str) {
    let mut g = PENDING_VIOLATION.lock().unwrap();
    if g.is_some() { return; }
    let path = cfg.replays_out.join(format!("{}-{}-violation.json", cfg.property, part));
    let file = ReplayFile { property: cfg.property.clone(), part: part.to_string(), signature: signature.to_string(), detail: detail.to_string(), expect: None, case: serde_json::to_value(case).unwrap_or(Value::Null) };
    let _ = std::fs::create_dir_all(&cfg.replays_out);
    let _ = std::fs::write(&path, serde_json::to_string_pretty(&file).unwrap_or_default());
    *g = Some((cfg.property.clone(), path, signature.to_string(), detail.to_string()));
}

/// Before a case is executed it is written to `inflight-<property>-<part>-w<k>.json`: if the case crashes the whole process
/// (memory corruption inside the library), the supervising parent process finds the culprit among these files.
fn write_inflight<C: Serialize>(cfg: &Cfg, part: &str, worker: usize, case: &C) {
    let path = cfg.replays_out.join(format!("inflight-{}-{}-w{}.json", cfg.property, part, worker));
    let file = ReplayFile { property: cfg.property.clone(), part: part.to_string(), signature: "inflight".into(), detail: String::new(), expect: None,
                            case: serde_json::to_value(case).unwrap_or(Value::Null) };
    let _ = std::fs::write(path, serde_json::to_string(&file).unwrap_or_default());
}
fn clear_inflight(cfg: &Cfg, part: &str, worker: usize) {
    let _ = std::fs::remove_file(cfg.replays_out.join(format!("inflight-{}-{}-w{}.json", cfg.property, part, worker)));
}
thread_local! {
    /// set by a part whose executions are not reproducible from the case (free-running threads) right before it reports a violation:
    /// the case with the violating execution's recorded history inside; the driver reports / replays that one instead of re-executing
    static FROZEN: std::cell::RefCell<Option<Value>> = const { std::cell::RefCell::new(None) };
}
pub fn freeze_case<C: Serialize>(case: &C) { FROZEN.with(|f| *f.borrow_mut() = serde_json::to_value(case).ok()); }
fn take_frozen() -> Option<Value> { FROZEN.with(|f| f.borrow_mut().take()) }

pub static SURVEY_DETAILS: Mutex<BTreeMap<String, String>> = Mutex::new(BTreeMap::new());

fn mix(a: u64, b: u64) -> u64 {
    let mut x = a ^ b.wrapping_mul(0x9E3779B97F4A7C15);
    x ^= x >> 31;
    x = x.wrapping_mul(0xD6E8FEB86659FD93);
    x ^= x >> 32;
    x
}

struct Shared {
    res:  Mutex<PartResult>,
    stop: AtomicBool,
}

fn account(shared: &Shared, rep: &RunReport, case_json: impl FnOnce() -> Value) {
    let mut r = shared.res.lock().unwrap();
    r.evaluations += 1;
    for c in &rep.classes { *r.classes.entry(c.clone()).or_insert(0) += 1; }
    if rep.nontrivial {
        let fresh = r.nontrivial.insert(rep.fingerprint);
        if fresh && r.samples.len() < 4 {
            let v = json!({ "case": case_json(), "outcome": rep.summary });
            r.samples.push(v);
        }
    }
    if let Verdict::Inconclusive(why) = &rep.verdict {
        r.inconclusive += 1;
        *r.inconclusive_reasons.entry(why.clone()).or_insert(0) += 1;
    }
}

/// Runs one part of a property: exhaustive cases (if any), then the generated search on `cfg.workers` threads.
pub fn run_part<P: Property>(prop: &P, cfg: &Cfg) -> PartResult {
    let shared = Shared {
        res: Mutex::new(PartResult { part: prop.part().to_string(), rule: prop.rule(), ..Default::default() }),
        stop: AtomicBool::new(false),
    };
    let known: Vec<&KnownFinding> = cfg.known.iter().filter(|k| k.property == cfg.property).collect();
    let survey = cfg.survey;
    let is_known = |sig: &str| survey || known.iter().any(|k| k.signature == sig);
    let failure: Mutex<Option<P::Case>> = Mutex::new(None);
    let frozen_failure: Mutex<Option<Value>> = Mutex::new(None);

    let _ = std::fs::create_dir_all(&cfg.replays_out);
    // --- bounded-exhaustive phase (the enumeration is split over the workers: worker w takes the cases w, w+W, w+2W, ...)
    if prop.exhaustive(cfg.tier).is_some() {
        let count = AtomicU64::new(0);
        let workers = cfg.workers.max(1);
        std::thread::scope(|scope| {
            for w in 0..workers {
                let shared = &shared;
                let failure = &failure;
                let is_known = &is_known;
                let count = &count;
                scope.spawn(move || {
                    let Some(iter) = prop.exhaustive(cfg.tier) else { return };
                    for (n, case) in iter.skip(w).step_by(workers).enumerate() {
                        if shared.stop.load(Ordering::Relaxed) { break; }
                        count.fetch_add(1, Ordering::Relaxed);
                        PROGRESS.fetch_add(1, Ordering::Relaxed);
                        if n % 64 == 0 || cfg.inflight_every_case { write_inflight(cfg, prop.part(), 100 + w, &case); }
                        let rep = prop.run_guarded(&case);
                        account(shared, &rep, || serde_json::to_value(&case).unwrap_or(Value::Null));
                        if let Verdict::Violation { signature, detail } = &rep.verdict {
                            if survey { SURVEY_DETAILS.lock().unwrap().entry(signature.clone()).or_insert_with(|| detail.clone()); }
                            if is_known(signature) {
                                *shared.res.lock().unwrap().known_hits.entry(signature.clone()).or_insert(0) += 1;
                            } else {
                                if !survey { note_first_violation(cfg, prop.part(), &case, signature, detail); }
                                shared.stop.store(true, Ordering::Relaxed);
                                let mut f = failure.lock().unwrap();
                                if f.is_none() { *f = Some(case); }
                                break;
                            }
                        }
                    }
                    clear_inflight(cfg, prop.part(), 100 + w);
                });
            }
        });
        shared.res.lock().unwrap().exhaustive = Some(count.load(Ordering::Relaxed));
    }

    // --- generated search
    let total = ((prop.cases(cfg.tier) as f64) * cfg.case_scale).ceil() as u32;
    let workers = cfg.workers.max(1).min(total.max(1) as usize);
    if failure.lock().unwrap().is_none() && total > 0 {
        std::thread::scope(|scope| {
            for w in 0..workers {
                let shared = &shared;
                let failure = &failure;
                let frozen_failure = &frozen_failure;
                let is_known = &is_known;
                let per = total / workers as u32 + if (w as u32) < total % workers as u32 { 1 } else { 0 };
                let seed = mix(mix(cfg.seed, w as u64 + 1), fxhash(prop.part()));
                let tier = cfg.tier;
                scope.spawn(move || {
                    if per == 0 { return; }
                    let config = Config {
                        cases: per,
                        rng_seed: RngSeed::Fixed(seed),
                        failure_persistence: None,
                        max_shrink_iters: 3000,
                        max_global_rejects: 1_000_000,
                        ..Config::default()
                    };
                    let mut runner = TestRunner::new(config);
                    let failed_here = std::cell::Cell::new(false);
                    let strategy = prop.strategy(tier);
                    let no_shrink = std::cell::Cell::new(false);
                    let result = runner.run(&strategy, |case| {
                        if !failed_here.get() && shared.stop.load(Ordering::Relaxed) { return Ok(()); }
                        // (a case that blocks costs seconds of wall-clock time per execution: it is reported as found, not shrunk)
                        if no_shrink.get() { return Ok(()); }
                        let blocked_runs = crate::sched::BLOCKED_RUNS.load(Ordering::Relaxed);
                        if failed_here.get() && blocked_runs >= 3 { return Ok(()); }        // shrinking through blocking cases would take hours
                        if blocked_runs >= 48 { return Ok(()); }                              // the search itself is drowning in blocked runs: conclude (inconclusive)
                        PROGRESS.fetch_add(1, Ordering::Relaxed);
                        write_inflight(cfg, prop.part(), w, &case);
                        let _ = take_frozen();
                        let rep = prop.run_guarded(&case);
                        let frozen = take_frozen();
                        if !failed_here.get() {
                            account(shared, &rep, || serde_json::to_value(&case).unwrap_or(Value::Null));
                        }
                        match &rep.verdict {
                            Verdict::Violation { signature, detail } => {
                                if survey { SURVEY_DETAILS.lock().unwrap().entry(signature.clone()).or_insert_with(|| format!("{}\n    CASE {}", detail, serde_json::to_string(&ReplayFile { property: String::new(), part: prop.part().to_string(), signature: signature.clone(), detail: String::new(), expect: None, case: serde_json::to_value(&case).unwrap_or(Value::Null) }).unwrap_or_default())); }
                                if is_known(signature) {
                                    if !failed_here.get() {
                                        *shared.res.lock().unwrap().known_hits.entry(signature.clone()).or_insert(0) += 1;
                                    }
                                    Ok(())
                                } else {
                                    if !failed_here.get() { note_first_violation(cfg, prop.part(), &case, signature, detail); }
                                    if signature.contains("blocked-instead-of-returning") { no_shrink.set(true); }
                                    if let Some(fz) = frozen { let mut g = frozen_failure.lock().unwrap(); if g.is_none() { *g = Some(fz); } no_shrink.set(true); }
                                    failed_here.set(true);
                                    shared.stop.store(true, Ordering::Relaxed);
                                    Err(TestCaseError::fail(signature.clone()))
                                }
                            },
                            _ => Ok(()),
                        }
                    });
                    clear_inflight(cfg, prop.part(), w);
                    match result {
                        Ok(()) => {},
                        Err(TestError::Fail(_, case)) => {
                            let mut f = failure.lock().unwrap();
                            if f.is_none() { *f = Some(case); }
                        },
                        Err(TestError::Abort(why)) => {
                            shared.res.lock().unwrap().harness_error = Some(format!("proptest aborted: {why}"));
                        },
                    }
                });
            }
        });
    }

    let mut result = shared.res.into_inner().unwrap();
    let mut failing = failure.into_inner().unwrap();
    if let Some(fz) = frozen_failure.into_inner().unwrap() {
        // a frozen execution (recorded history inside the case) takes precedence over the case that produced it
        if let Ok(c) = serde_json::from_value::<P::Case>(fz) { failing = Some(c); }
    }
    if let Some(case) = failing {
        match confirm_and_minimise(prop, cfg, case, &is_known) {
            Ok((sig, detail, path)) => result.violation = Some((sig, detail, path)),
            Err(why) => result.harness_error = Some(why),
        }
    }
    result
}

fn fxhash(s: &str) -> u64 {
    s.bytes().fold(0xcbf29ce484222325u64, |h, b| (h ^ b as u64).wrapping_mul(0x100000001b3))
}

#[derive(Serialize, serde::Deserialize)]
pub struct ReplayFile {
    pub property:  String,
    pub part:      String,
    pub signature: String,
    pub detail:    String,
    /// for committed regression cases: "pass" (a repaired defect must stay repaired; default) or "known" (golden witness of a known finding)
    #[serde(default)]
    pub expect:    Option<String>,
    pub case:      Value,
}

/// shrunk case -> realised trace as explicit schedule -> delta debugging on the preemption list -> replay file,
/// re-executed from the file before being reported
fn confirm_and_minimise<P: Property>(prop: &P, cfg: &Cfg, mut case: P::Case, is_known: &dyn Fn(&str) -> bool)
                                    -> Result<(String, String, std::path::PathBuf), String> {
    let fails = |c: &P::Case| -> Option<(String, String, Option<Vec<(u32, u8)>>)> {
        for _ in 0..prop.attempts(c).max(1) {
            let rep = prop.run_guarded(c);
            if let Verdict::Violation { signature, detail } = rep.verdict { if !is_known(&signature) { return Some((signature, detail, rep.trace)); } }
        }
        None
    };
    let Some((mut sig, mut detail, trace)) = fails(&case) else {
        return Err(format!("shrunk failing case did not fail when re-run (non-deterministic harness?): {:?}", case));
    };
    // explicit schedule
    if let (Some(trace), true) = (trace, prop.schedule_mut(&mut case).is_some()) {
        let mut explicit = case.clone();
        *prop.schedule_mut(&mut explicit).unwrap() = Schedule::Sparse(trace.clone());
        if let Some((s, d, _)) = fails(&explicit) {
            case = explicit;
            sig = s;
            detail = d;
            // ddmin over the switch list (one-at-a-time removal until fixpoint; lists are short)
            let mut list = trace;
            let mut changed = true;
            let mut budget = 400;
            while changed && budget > 0 {
                changed = false;
                let mut i = 0;
                while i < list.len() && budget > 0 {
                    budget -= 1;
                    let mut cand = list.clone();
                    cand.remove(i);
                    let mut c2 = case.clone();
                    *prop.schedule_mut(&mut c2).unwrap() = Schedule::Sparse(cand.clone());
                    if let Some((s, d, _)) = fails(&c2) {
                        list = cand;
                        case = c2;
                        sig = s;
                        detail = d;
                        changed = true;
                    } else {
                        i += 1;
                    }
                }
            }
        }
    }
    // write the replay file and re-execute from it
    std::fs::create_dir_all(&cfg.replays_out).map_err(|e| e.to_string())?;
    let path = cfg.replays_out.join(format!("{}-{}-violation.json", cfg.property, prop.part()));
    let file = ReplayFile { property: cfg.property.clone(), part: prop.part().to_string(), signature: sig.clone(), detail: detail.clone(), expect: None,
                            case: serde_json::to_value(&case).map_err(|e| e.to_string())? };
    std::fs::write(&path, serde_json::to_string_pretty(&file).unwrap()).map_err(|e| e.to_string())?;
    let reread: ReplayFile = serde_json::from_str(&std::fs::read_to_string(&path).map_err(|e| e.to_string())?).map_err(|e| e.to_string())?;
    let case2: P::Case = serde_json::from_value(reread.case).map_err(|e| e.to_string())?;
    match fails(&case2) {
        Some(_) => Ok((sig, detail, path)),
        None => Err(format!("violation did not reproduce from its replay file {}", path.display())),
    }
}

/// Re-runs one replay file against `prop` (strict: known findings are reported as violations too)
pub fn replay_part<P: Property>(prop: &P, file: &ReplayFile) -> Result<RunReport, String> {
    let case: P::Case = serde_json::from_value(file.case.clone()).map_err(|e| format!("cannot decode case: {e}"))?;
    let mut rep = prop.replay(&case);
    for _ in 1..prop.attempts(&case).max(1) {
        if matches!(rep.verdict, Verdict::Violation { .. }) { break; }
        rep = prop.run_guarded(&case);
    }
    Ok(rep)
}

/// One libFuzzer input -> one case. Parts with a structure-aware decoder (`Property::decode`, hand-written over `arbitrary::Unstructured`,
/// mirroring the part's proptest generator) map input bytes to case fields directly, so coverage-guided mutation of the input mutates the case
/// locally; for the other parts the input is hashed into the seed of the part's own generator (every input still decodes into a case of the
/// generator's domain, but mutation is then only a source of fresh seeds).
pub fn fuzz_part<P: Property>(prop: &P, data: &[u8]) -> Option<(RunReport, Value)> {
    use proptest::strategy::ValueTree;
    use proptest::test_runner::{RngAlgorithm, TestRng};
    let mut u = arbitrary::Unstructured::new(data);
    let case = match prop.decode(&mut u) {
        Some(c) => c,
        None => {
            let mut seed = [0u8; 32];
            let mut x = data.iter().fold(0xcbf29ce484222325u64, |h, b| (h ^ *b as u64).wrapping_mul(0x100000001b3)) | 1;
            for chunk in seed.chunks_mut(8) { x ^= x << 13; x ^= x >> 7; x ^= x << 17; chunk.copy_from_slice(&x.wrapping_mul(0x2545F4914F6CDD1D).to_le_bytes()); }
            let rng = TestRng::from_seed(RngAlgorithm::ChaCha, &seed);
            let mut runner = TestRunner::new_with_rng(Config { failure_persistence: None, ..Config::default() }, rng);
            prop.strategy(Tier::Quick).new_tree(&mut runner).ok()?.current()
        },
    };
    let rep = prop.run_guarded(&case);
    Some((rep, serde_json::to_value(&case).unwrap_or(Value::Null)))
}

pub struct PropertyResult {
    pub parts: Vec<PartResult>,
    pub wall_s: f64,
}

/// Prints the KNOWN-FINDING / VIOLATION lines, writes the evidence file, returns the exit code
pub fn conclude(cfg: &Cfg, parts: Vec<PartResult>, started: Instant, assumptions: &[&str], evidence_path: &std::path::Path, replays_run: u32) -> i32 {
    let wall_s = started.elapsed().as_secs_f64();
    let mut exit = 0;
    let mut evaluations = 0u64;
    let mut distinct = 0u64;
    let mut samples = vec![];
    let mut parts_json = vec![];
    let mut violations = 0;
    let mut known_total: BTreeMap<String, u64> = BTreeMap::new();
    let mut rules = vec![];
    let mut all_exhaustive = true;
    for p in &parts {
        evaluations += p.evaluations;
        distinct += p.nontrivial.len() as u64;
        for s in p.samples.iter().take(2) { samples.push(json!({"part": p.part, "sample": s})); }
        rules.push(format!("[{}] {}", p.part, p.rule));
        for (k, v) in &p.known_hits { *known_total.entry(k.clone()).or_insert(0) += v; }
        if p.exhaustive.is_none() || p.evaluations > p.exhaustive.unwrap_or(0) { all_exhaustive = false; }
        parts_json.push(json!({
            "part": p.part,
            "evaluations": p.evaluations,
            "distinct_nontrivial": p.nontrivial.len(),
            "classes": p.classes,
            "known_finding_hits": p.known_hits,
            "inconclusive": p.inconclusive,
            "inconclusive_reasons": p.inconclusive_reasons,
            "exhaustive_cases": p.exhaustive,
            "violation": p.violation.as_ref().map(|(s, d, f)| json!({"signature": s, "detail": d, "replay": f})),
            "harness_error": p.harness_error,
        }));
        if let Some((sig, detail, path)) = &p.violation {
            violations += 1;
            println!("VIOLATION property={} replay={}", cfg.property, path.display());
            println!("  part={} signature={}", p.part, sig);
            println!("  {}", detail);
            exit = 1;
        }
    }
    if cfg.survey {
        for (sig, n) in &known_total { println!("SURVEY {} x{}", sig, n); }
        let mut out = String::new();
        for (sig, d) in SURVEY_DETAILS.lock().unwrap().iter() { out.push_str(&format!("{sig}\n    {d}\n\n")); }
        let _ = std::fs::write(evidence_path.with_file_name(format!("survey-{}.txt", cfg.property)), out);
    }
    for k in cfg.known.iter().filter(|k| k.property == cfg.property) {
        if let Some(n) = known_total.get(&k.signature) {
            println!("KNOWN-FINDING: property={} sig={} {} (hit {} times)", cfg.property, k.signature, k.text, n);
        }
    }
    for p in &parts {
        if let Some(err) = &p.harness_error {
            println!("HARNESS-ERROR property={} part={}: {}", cfg.property, p.part, err);
            if exit == 0 { exit = 2; }
        }
        if p.evaluations > 20 && p.inconclusive * 2 > p.evaluations {
            println!("INCONCLUSIVE property={} part={}: {} of {} cases inconclusive {:?}", cfg.property, p.part, p.inconclusive, p.evaluations, p.inconclusive_reasons);
            if exit == 0 { exit = 2; }
        }
    }
    let evidence = json!({
        "property_id": cfg.property,
        "tier": cfg.tier.name(),
        "seed": cfg.seed,
        "level": "exploration",
        "coverage": {
            "evaluations": evaluations,
            "distinct_nontrivial": distinct,
            "rule": rules.join(" || "),
            "samples": samples,
            "exhaustive": all_exhaustive && !parts.is_empty(),
            "parts": parts_json,
            "known_findings_hit": known_total,
            "committed_replays_run": replays_run,
        },
        "assumptions": assumptions,
        "wall_s": wall_s,
        "violations": violations,
    });
    if let Some(dir) = evidence_path.parent() { let _ = std::fs::create_dir_all(dir); }
    std::fs::write(evidence_path, serde_json::to_string_pretty(&evidence).unwrap()).expect("write evidence");
    println!("property={} tier={} seed={} evaluations={} distinct_nontrivial={} violations={} wall_s={:.1} exit={}",
             cfg.property, cfg.tier.name(), cfg.seed, evaluations, distinct, violations, wall_s, exit);
    exit
}

/// helper: monotone index mapping for shrink-friendly selection
pub fn pick<T: Clone>(items: &[T], i: u16) -> T {
    items[((i as usize) * items.len()) >> 16].clone()
}

pub fn boxed<S: Strategy + 'static>(s: S) -> BoxedStrategy<S::Value> { s.boxed() }
