//! One libFuzzer target for every part of the harness: RMV_FUZZ_PART selects the part; the input bytes are the random stream of that part's
//! own proptest generator (see rmv::driver::fuzz_part), the part's oracle runs inside the target, known findings are tolerated (counted).
#![no_main]
use libfuzzer_sys::fuzz_target;
fuzz_target!(|data: &[u8]| { rmv::fuzz::one(data); });
