#!/bin/bash
# usage: tools_keep.sh <agent out dir> <seeded name>   -- confirms a sub-agent deliverable in the scratch worktree /tmp/wt/scratch (patch applies, demo passes without /
# fails with, pinned suite passes with) and keeps it as /verif/seeded/<name>/ (no check is run here: tools_mutant.sh / tools_lab.sh run do that)
src="$1"; name="$2"
conf=$(/verif/tools_confirm.sh "$src" /tmp/wt/scratch 2>&1 | grep "^CONFIRM"); echo "$conf"
echo "$conf" | grep -q "demo-without=\[test result: ok" || { echo "NOT KEPT ($name): demo does not pass on the unchanged tree"; exit 1; }
echo "$conf" | grep -q "demo-with=\[\(error\|test result: FAILED\)" || { echo "NOT KEPT ($name): demo does not fail with the change"; exit 1; }
echo "$conf" | grep -q "suite-with=\[150/150" || { echo "NOT KEPT ($name): pinned suite does not pass with the change"; exit 1; }
mkdir -p /verif/seeded/$name; cp "$src"/{patch.diff,demo.rs,meta.json,notes.md} /verif/seeded/$name/ 2>/dev/null
python3 - /verif/seeded/$name/meta.json "$conf" <<'PY'
import json,sys
p=sys.argv[1]
try: m=json.load(open(p))
except Exception: m={}
m['confirmed_in_scratch_worktree']=sys.argv[2]
json.dump(m,open(p,'w'),indent=1)
PY
echo "KEPT $name"
