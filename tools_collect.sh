#!/bin/bash
# usage: tools_collect.sh <agent out dir> <seeded name> <property-id>...   -- confirms a sub-agent's deliverable in the scratch worktree, copies it to
# seeded/<name>/ and runs the quick checks of the given properties against it (in /repo, undone afterwards); appends the outcome to meta.json
src="$1"; name="$2"; shift 2
V=/verif
conf=$($V/tools_confirm.sh "$src" /tmp/wt/scratch 2>&1 | grep "^CONFIRM")
echo "$conf"
echo "$conf" | grep -q "demo-without=\[test result: ok" || { echo "NOT KEPT: demo does not pass on the unchanged tree"; exit 1; }
echo "$conf" | grep -q "demo-with=\[\(error\|test result: FAILED\)" || { echo "NOT KEPT: demo does not fail with the change"; exit 1; }
echo "$conf" | grep -q "suite-with=\[150/150" || { echo "NOT KEPT: pinned suite does not pass with the change"; exit 1; }
mkdir -p $V/seeded/$name; cp "$src"/{patch.diff,demo.rs,meta.json,notes.md} $V/seeded/$name/ 2>/dev/null
res=$($V/tools_mutant.sh $V/seeded/$name/patch.diff "$@" 2>&1 | grep -v WARNING)
echo "$res"
python3 - "$V/seeded/$name/meta.json" "$conf" "$res" <<'PY'
import json,sys
p=sys.argv[1]
try: m=json.load(open(p))
except Exception: m={}
m['confirmed_by_me']=sys.argv[2]
m['checks_run']=sys.argv[3]
json.dump(m,open(p,'w'),indent=1)
PY
