#!/usr/bin/env python3
# usage: tools_agent_prompt.py <property-id> [out-prefix]  -- prints the sub-agent prompt for one property (template + "already collected" list)
import json,sys,glob,os
pid=sys.argv[1]; pre=sys.argv[2] if len(sys.argv)>2 else 'm'
t=open('/verif/tools_agent_prompt.txt').read().replace('@ID@',pid).replace('out/m<k>/','out/%s<k>/'%pre)
avoid=[]
for d in sorted(glob.glob('/verif/seeded/%s-*'%pid)):
    mp=d+'/meta.json'
    if os.path.exists(mp): s=json.load(open(mp)).get('summary','')
    else: s=open(d+'/notes.md').read().split('\n')[0].lstrip('# ').strip()
    avoid.append(s[:260])
if avoid:
    t+="\n\nChanges ALREADY COLLECTED for this property in earlier rounds -- produce something that differs in mechanism AND in the code it touches (a different file, a different channel kind / entry point / code path), do not re-do these:\n"+"\n".join(" - "+a for a in avoid)
print(t)
