#!/bin/bash
# Single entry point of the verification machinery (see DESIGN.md).
#   ./check.sh <property-id> quick|thorough     run the check of one property (rebuilds against /repo's working tree)
#   ./check.sh replay <file>                    re-run one replay file (strict: known findings count as violations)
#   ./check.sh build                            build only (setup)
# exit 0: held on everything explored; 1: VIOLATION (line printed); 2: inconclusive / harness problem
if [ "$1" = "replay" ] && [ -n "$2" ]; then set -- replay "$(realpath "$2")"; fi
cd "$(dirname "$0")/harness" || exit 2
export CARGO_NET_OFFLINE=true
if ! cargo build --release --offline >build.log 2>&1; then
    echo "HARNESS-ERROR: build failed (see $(pwd)/build.log)"
    tail -40 build.log
    exit 2
fi
[ "$1" = "build" ] && exit 0
[ "$1" = "replay" ] || set -- check "$@"
exec ./target/release/rmv "$@"
