#!/bin/bash
# Single entry point of the verification machinery (see DESIGN.md).
#   ./check.sh <property-id> quick|thorough     run the check of one property (rebuilds against /repo's working tree)
#   ./check.sh replay <file>                    re-run one replay file (strict: known findings count as violations)
#   ./check.sh build                            build only (setup)
#   ./check.sh fuzz-replay <part> <file>        re-run one libFuzzer input / crash artifact through the part's decoder + oracle
# exit 0: held on everything explored; 1: VIOLATION (line printed); 2: inconclusive / harness problem
if [ "$1" = "replay" ] && [ -n "$2" ]; then set -- replay "$(realpath "$2")"; fi
cd "$(dirname "$0")/harness" || exit 2
export CARGO_NET_OFFLINE=true
export VERIF_DIR="${VERIF_DIR:-/verif}"
if ! cargo build --release --offline >build.log 2>&1; then
    echo "HARNESS-ERROR: build failed (see $(pwd)/build.log)"
    tail -40 build.log
    exit 2
fi
if [ "$1" = "build" ] || [ "$1" = "C15" ] || [ "$1" = "replay" ]; then
    # C15 also runs in a build with overflow checks and debug assertions on (library included)
    if ! cargo build --profile checked --offline >build-checked.log 2>&1; then
        echo "HARNESS-ERROR: build (profile checked) failed (see $(pwd)/build-checked.log)"
        tail -40 build-checked.log
        exit 2
    fi
fi
[ "$1" = "build" ] && exit 0
if [ "$1" = "fuzz-replay" ]; then exec ./target/release/rmv fuzz-once "$2" "$(realpath "$3")"; fi
if [ "$1" = "replay" ]; then
    if grep -q '"property": *"C15"' "$2" || grep -q '"build": *"checked"' "$2"; then
        RMV_BUILD=checked ./target/checked/rmv "$@"; rc1=$?
        ./target/release/rmv "$@"; rc2=$?
        [ $rc1 -eq 1 ] || [ $rc2 -eq 1 ] && exit 1
        [ $rc1 -ne 0 ] && exit $rc1
        exit $rc2
    fi
    exec ./target/release/rmv "$@"
fi
if [ "$1" = "C15" ]; then
    ./target/release/rmv check "$@"; rc1=$?
    RMV_BUILD=checked RMV_EVIDENCE_SUFFIX=-checked ./target/checked/rmv check "$@"; rc2=$?
    python3 - <<'PY'
import json,os
V=os.environ.get('VERIF_DIR','/verif')
a=json.load(open(V+'/evidence/C15.json')); b=json.load(open(V+'/evidence/C15-checked.json'))
ca, cb = a['coverage'], b['coverage']
for p in cb.get('parts', []): p['part'] += ' [build: overflow checks + debug assertions on]'
for p in ca.get('parts', []): p['part'] += ' [build: release]'
ca['evaluations'] += cb['evaluations']; ca['distinct_nontrivial'] += cb['distinct_nontrivial']
ca['parts'] = ca.get('parts', []) + cb.get('parts', [])
ca['samples'] = ca.get('samples', []) + cb.get('samples', [])[:2]
ca['rule'] += ' || every part ran twice: release build and a build with overflow-checks=on, debug-assertions=on (counts are the sums)'
a['violations'] = a.get('violations', 0) + b.get('violations', 0)
a['wall_s'] += b['wall_s']
json.dump(a, open(V+'/evidence/C15.json', 'w'), indent=1)
PY
    rm -f "$VERIF_DIR/evidence/C15-checked.json"
    rc=$rc2; [ $rc1 -ne 0 ] && rc=$rc1
    [ $rc1 -eq 1 ] || [ $rc2 -eq 1 ] && rc=1
else
    ./target/release/rmv check "$@"; rc=$?
fi
# thorough tier: coverage-guided campaigns (libFuzzer) over the controlled-schedule / sequential parts follow the generated search
if [ "$2" = "thorough" ] && [ $rc -ne 1 ] && [ -z "$VERIF_NO_FUZZ" ]; then
    "$VERIF_DIR/fuzz_campaign.sh" "$1"; frc=$?
    [ $frc -eq 1 ] && rc=1
    [ $frc -eq 2 ] && [ $rc -eq 0 ] && rc=2
fi
exit $rc
