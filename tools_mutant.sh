#!/bin/bash
# usage: tools_mutant.sh <patch.diff> <property-id>...   -- applies a seeded change to /repo, runs the quick checks, undoes it
patch="$(realpath "$1")"; shift
cd /repo || exit 2
if ! git diff --quiet; then echo "/repo has uncommitted changes"; exit 2; fi
if ! git apply "$patch" && ! git apply -C1 "$patch"; then echo "patch does not apply"; exit 2; fi
cd /verif
for id in "$@"; do
  start=$(date +%s)
  out=$(./check.sh $id quick 2>&1); rc=$?
  echo "== $id exit=$rc ($(( $(date +%s) - start )) s)"
  echo "$out" | grep -E "^VIOLATION|signature=|KNOWN-FINDING|HARNESS|INCONCL|^property=" | cut -c1-400
done
git -C /repo checkout -- .
