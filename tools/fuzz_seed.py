#!/usr/bin/env python3
"""seed corpus for a libFuzzer campaign: 16 files of pseudo-random bytes (a pure function of the seed), so the fuzzer starts at a useful length"""
import sys, random
r = random.Random(int(sys.argv[2]) & 0xffffffff)
for i in range(16):
    open(f"{sys.argv[1]}/seed-{i}", "wb").write(bytes(r.getrandbits(8) for _ in range(64 + 32 * i)))
