#!/usr/bin/env python3
"""merges the statistics of the libFuzzer campaigns of a property's parts into its evidence file"""
import json, os, sys
V = os.environ.get('VERIF_DIR', '/verif'); pid = sys.argv[1]
f = f"{V}/evidence/{pid}.json"; e = json.load(open(f)); c = e['coverage']
for part in sys.argv[2:]:
    try: st = json.load(open(f"{V}/evidence/fuzz-{part}.stats.json"))
    except Exception: continue
    c['evaluations'] += st.get('executions', 0)
    c.setdefault('parts', []).append({
        "part": f"{part} [coverage-guided: libFuzzer over the part's structure-aware case decoder, the part's oracle inside the target]",
        "evaluations": st.get('executions', 0), "nontrivial_executions": st.get('nontrivial', 0), "known_finding_hits": st.get('known_finding_hits', 0),
        "inconclusive": st.get('inconclusive', 0), "undecodable_inputs": st.get('undecodable_inputs', 0), "violation": st.get('violation')})
    if st.get('violation'): e['violations'] = e.get('violations', 0) + 1
json.dump(e, open(f, 'w'), indent=1)
