#!/usr/bin/env python3
"""Builds the catch matrix (markdown) from seeded/RESULTS*.txt (later files override earlier ones) + each change's meta.json; prints it."""
import glob, json, os, re
order = ['seeded/RESULTS-0e6edac.txt', 'seeded/RESULTS-round4-e8eff5d.txt', 'seeded/RESULTS-second-pass.txt', 'seeded/RESULTS-round5.txt', 'seeded/RESULTS-final.txt']
res = {}
for f in order:
    if not os.path.exists(f): continue
    for l in open(f):
        l = l.strip()
        if ':' not in l: continue
        name, rest = l.split(':', 1)
        if re.match(r'^(C\d\d-m\d+|self/\S+)$', name): res[name] = rest.strip()
def summary(name):
    d = 'seeded/' + name
    if name.startswith('self/'): return ''
    try: return json.load(open(d + '/meta.json')).get('summary', '')
    except Exception:
        try: return open(d + '/notes.md').read().split('\n')[0].lstrip('# ').strip()
        except Exception: return ''
rows = []
for name in sorted(res, key=lambda n: (n.startswith('self/'), n)):
    v = res[name]
    m = re.findall(r'CAUGHT-by-(C\d\d)\[([^\]]*)\]', v)
    try: status = json.load(open('seeded/' + name + '/meta.json')).get('status', '')
    except Exception: status = ''
    if status.startswith('obsolete'): v = 'obsolete'
    if 'obsolete' in v: verdict = 'obsolete (neutralised by a later fix; see meta.json)'
    elif m: verdict = '; '.join('%s `%s`' % (p, s[:90]) for p, s in m)
    else: verdict = '**not caught** (' + v + ')'
    s = summary(name).replace('|', '/')
    rows.append('| %s | %s | %s |' % (name, (s[:150] + ('...' if len(s) > 150 else '')), verdict))
print('| change | what it does (first 150 characters of its summary) | caught by (check, signature) |')
print('|---|---|---|')
print('\n'.join(rows))
caught = sum(1 for r in rows if '**not caught**' not in r and 'obsolete (' not in r)
print()
print('%d changes listed; %d caught by a registered quick check, %d obsolete, %d not caught.' % (len(rows), caught, sum(1 for r in rows if 'obsolete (' in r), sum(1 for r in rows if '**not caught**' in r)))
