#!/bin/bash
# usage: tools_agent_wt.sh <property-id>   -- prepares /tmp/wt/<id>/{repo (scratch git worktree of /repo HEAD), out/, PROPERTY.json} for a mutation sub-agent
id="$1"; d=/tmp/wt/$id
mkdir -p $d/out
[ -d $d/repo ] || git -C /repo worktree add --detach $d/repo HEAD >/dev/null 2>&1
[ -d $d/repo/target ] || cp -r /repo/target $d/repo/target
python3 - "$id" <<'PY'
import json,sys
for l in open('/verif/properties.jsonl'):
    p=json.loads(l)
    if p['id']==sys.argv[1]:
        p.pop('added_in_round',None); p.pop('source',None)
        if 'anchors' in p: p['anchors'].pop('hook_needed',None)
        json.dump(p,open(f'/tmp/wt/{sys.argv[1]}/PROPERTY.json','w'),indent=1)
PY
echo $d
