#!/usr/bin/env python3
"""Generates /verif/MANIFEST.json from the table below (kept next to the code so the two cannot drift)."""
import json, subprocess

def repo_commits(prefix):
    out = subprocess.run(["git", "-C", "/repo", "log", "--format=%h %s"], capture_output=True, text=True).stdout.splitlines()
    return [l.split()[0] for l in out if l.split(" ", 1)[1].startswith(prefix)]

CHECKS = {
 # id: (technique, level text, level note, design ref)
 "C02": ("generated thread schedules + operation bursts on the two raw rings; Wing-Gong linearizability search vs bounded FIFO + interval rule for 'full'",
         "Exploration: thousands of generated (scenario, schedule) pairs per run on the raw rings at capacity 2/4 (incl. counters next to the u32 wrap), executed under a scheduler that owns every interleaving of the library's atomic operations; each history is decided exactly by an exhaustive linearizability search. Nothing is proved; small sizes, SC interleavings.",
         "Trusted: the verif shim (repr(transparent) atomics, pass-through semantics), the scheduler, the linearizability checker (unit-tested). Assumes sequential consistency.", "6 C02"),
 "C18": ("generated thread schedules + push/pop, enqueue/dequeue scripts on the four stand-alone containers; linearizability search vs bounded LIFO/FIFO",
         "Exploration: generated scripts x schedules on the atomic-flag stack, the two NonBlockingQueues and the parking-lot stack (capacity 2..8, 2..4 threads); every history decided by exhaustive linearizability search incl. exact 'full'/'empty' answers for the stacks.",
         "parking_lot's mutex is not instrumented (its operations are atomic under the controlled scheduler). SC interleavings only.", "6 C18"),
}
ALL = ["C%02d" % i for i in range(1, 21)]

manifest = {
  "version": 1,
  "setup_cmd": "cd /verif && ./check.sh build",
  "hooks": {
     "guard": "verif",
     "enable": "cargo feature `verif` of reactive-mutiny; the harness crate /verif/harness depends on /repo by path with features=[\"verif\"], so every check rebuilds /repo's working tree with hooks on",
     "baseline_off_cmd": "/verif/baseline_off.sh",
     "source_commits": repo_commits("verif hooks"),
     "add_only": True,
  },
  "engines": [
     {"name": "rmv", "path": "/verif/harness", "serves_properties": sorted(CHECKS.keys()),
      "kind_free_text": "Rust harness: proptest-generated cases (scripts, configurations, schedules) on 16 worker threads; E1 controlled scheduler over the verif atomic shim; oracles = ledgers, reference models, linearizability search; shrinking + schedule minimisation + replay files"},
  ],
  "checks": [],
  "not_applicable": [],
  "notes": "exit 0 = held on everything explored (KNOWN-FINDING lines allowed), 1 = VIOLATION line printed, 2 = inconclusive (watchdog / budget / harness error). Known findings: /verif/KNOWN_FINDINGS.txt. Regression replays: /verif/replays.",
}
for pid in ALL:
    if pid in CHECKS:
        tech, text, note, ref = CHECKS[pid]
        manifest["checks"].append({
            "property_id": pid,
            "quick_cmd": f"./check.sh {pid} quick",
            "thorough_cmd": f"./check.sh {pid} thorough",
            "evidence_file": f"/verif/evidence/{pid}.json",
            "replay_cmd_template": "./check.sh replay {path}",
            "engine": "rmv",
            "level_claimed": {"category": "exploration", "text": text, "design_ref": ref},
            "level_note": note,
            "technique": "property-based testing: " + tech,
        })
    else:
        manifest["not_applicable"].append({"property_id": pid, "reason": "check under construction in this round (designed in DESIGN.md section 6; not claimed until its check is registered)"})
json.dump(manifest, open("/verif/MANIFEST.json", "w"), indent=1)
print("checks:", [c["property_id"] for c in manifest["checks"]])
