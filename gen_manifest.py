#!/usr/bin/env python3
"""Generates /verif/MANIFEST.json from the table below (kept next to the code so the two cannot drift)."""
import json, subprocess

def repo_commits(prefix):
    out = subprocess.run(["git", "-C", "/repo", "log", "--format=%h %s"], capture_output=True, text=True).stdout.splitlines()
    return [l.split()[0] for l in out if l.split(" ", 1)[1].startswith(prefix)]

CHECKS = {
 "C06": ("generated workloads through Uni (5 channel kinds x 3 configurations x 4 spawn functions) and Multi (6 kinds x 4 spawn functions, 1..3 listeners) on real tokio runtimes (current_thread with the clock paused; multi_thread 2 / 4): events over {ok, ok after k yields, ok once a gate opens, error}, concurrency limit 1..4, gate opening before or only after close() was called; processed-set-at-return oracle + end-state checks + nothing-discarded check after the close callbacks",
         "Exploration: thousands of generated workloads per run; the pipeline records the END of each item's processing, and at the instant close() returns every accepted event must have been recorded by every listener entitled to it (Uni: by some stream), close answered true, running_streams_count()==0, !is_channel_open(); after all close callbacks processed == accepted as multisets. Work is made outstanding at the moment of the call by items that wait for a gate another task opens only some milliseconds into close().",
         "Task interleavings on the multi-thread runtimes are the OS's (sampled, not controlled): cases there are re-executed up to 25 times before 'does not fail' is believed. No oracle clause compares against a duration; a workload that does not finish is 'inconclusive', never a violation. The bare-channel form (gracefully_end_all_streams with harness-polled streams) is covered by the controlled-scheduler checks of C07 (cancel) and C01/C03 (delivery).", "6 C06"),
 "C11": ("generated item sequences over {ok, ok after yields, gated ok, error, error after yields, slow = never completes} x the five StreamExecutor::spawn_* functions x 9 instrument settings (named ones + Custom bit sets) x futures timeout on/off x concurrency limit 1..8 x source-stream readiness pattern, on paused-clock and multi-thread tokio runtimes; plus the same accounting through Uni and Multi; counter equation + error-callback ledger + in-flight gauge + dropped-incomplete ledger",
         "Exploration: thousands of generated (sequence, configuration) pairs per run; in the close callback ok / timed-out / failed must each equal the intended count (so they add up to the number of items) whenever metrics are on, and be zero otherwise; the error callback runs exactly once per failed item; every item that is not slow completes, also after failures and time-outs; slow items' futures are dropped uncompleted; a gauge inside the items never exceeds the limit (per executor, also through Uni with limit < MAX_STREAMS).",
         "With a real clock, items meant to complete are ready at their first poll, so a time-out can never hit them whatever the machine load (virtual time is used for the waiting variants). 'Metrics on' is decided from the documented bit set, not by calling the library.", "6 C11"),
 "C12": ("generated workloads (as C06 / C11) with logical stamps from one atomic counter at the end of every item and at the entry of every close callback: executor level (5 spawn functions), Uni (MAX_STREAMS 1/2/4: the latch), Multi (1..3 executors, one optionally ended through flush_and_cancel_executor, log-channel old/new executor pairs with sequential_transition on/off); callback-ledger oracle",
         "Exploration: thousands of generated workloads per run; every executor's close callback runs exactly once, after the last item of that executor, in state StreamEnded or -- only if it had been scheduled to finish -- ProgrammaticallyEnded, finish >= start; a Uni's callback exactly once after the last item of ANY of its MAX_STREAMS executors, with finished_executors_count == MAX_STREAMS; old/new pairs: old = exactly the events published before subscribing, new = the rest, and with sequential_transition no new event enters processing before the last old one completed.",
         "Interleavings on multi-thread runtimes are sampled. Out-of-order completion is produced by items that yield / wait next to immediate ones under limit > 1.", "6 C12"),
 "C09": ("generated publisher scripts x subscription calls (new only / old+new split / old+new joined, up front or racing the publishers) x listener speeds x thread schedules on the mmap log channel; log-order oracle established by an auditor replay, split-point / suffix / full-replay checks with real-time bounds, reference stability",
         "Exploration: generated (publishers, subscriptions, schedule) triples under the controlled scheduler, with scheduling points between a publisher's position reservation, its slot write and the in-order advance of the visible tail, and inside the subscription calls; every stream must yield consecutive positions of the one log order at the log's own addresses; joined = everything, old = [0,k) then end, new = [k,N), new-only = gapless suffix; split points bounded by what had been accepted before / was sent after the subscription call; references re-read at the end.",
         "SC interleavings; send_with_async / reserve_slot / old-only subscription are todo!() upstream and excluded; the log order is read back through the library's own joined subscription on the quiescent channel (cross-checked: accepted set, once each, consecutive slots, producer order).", "6 C09"),
 "C08": ("bounded-exhaustive + generated single-threaded histories of reserve / fill / send-reserved / cancel / send / receive on the 5 kinds implementing the API, counters starting anywhere next to the 32-bit wrap; reference model compared after every step",
         "Exploration: every history up to a length bound for BUFFER_SIZE 2 (exhaustive: 7^5 quick / 7^7 thorough per kind and origin) plus tens of thousands of random histories up to length 120; a slot answered 'sent' is delivered once with the written value, a cancelled one never, and after completion exactly BUFFER_SIZE events are accepted.",
         "Sequential histories only in this part (the interleavings with a polling consumer are exercised by the C01 / C04 parts through the reserve+send_reserved entry point). Documented call restrictions are respected by construction.", "6 C08"),
 "C10": ("generated single-threaded histories of create-listener / send / receive-some / drop-listener (with leftovers) / cancel on the non-log Multi kinds and the Uni kinds; per-listener window model + running-count and id-recycling checks after every step",
         "Exploration: tens of thousands of histories (up to 300 operations, MAX_STREAMS 1/2/4) against a reference model in which each listener owns exactly the events accepted during its lifetime; stale events of an earlier listener, wrong running counts and exhausted stream ids are model mismatches.",
         "Sequential histories (listener churn concurrent with sends is C17).", "6 C10"),
 "C13": ("generated alloc / dealloc scripts x thread schedules on both free-list implementations, POOL_SIZE 2/4/8, free-list counters next to the wrap; ownership ledger with interval rules + id<->ref bijection + destructor ledger",
         "Exploration: generated (scripts, schedule) pairs under the controlled scheduler; double allocation, payload overwritten while owned, spurious exhaustion (interval rule), over-capacity, destructor counts and refill capacity are decided per history.",
         "SC interleavings; scheduling points at the free list's atomics and at the payload slot accesses.", "6 C13"),
 "C14": ("generated handle histories (new / new_with_clones / clone / bulk increment + raw copies / into_ogre_arc / deref / drop / hand-over between threads) x thread schedules; handle model + destructor ledger + pool refill",
         "Exploration: generated (scripts, schedule) pairs on 2..3 threads over OgreArc / OgreUnique handles to pooled values with destructors; deref always yields the created value, references_count equals live shared handles at quiescence, each value destroyed exactly once after its last handle, slots returned.",
         "SC interleavings only (the Release/Acquire pair of the last drop is not exercised).", "6 C14"),
 "C15": ("differential property-based testing: every generated single-threaded script (channels: sequential engine ops; raw rings, queues, pool allocator: put/get/len, alloc/dealloc) replayed from sequence origin k in a window below 2^32 and from origin 0, in a release build and in a build with overflow checks + debug assertions",
         "Exploration: 60k script pairs per build in the quick tier; the observation streams (accept/reject, values, order, lengths, boolean answers, panics, stalls) must be identical; '>2^32 events have flowed' is simulated by constructing every ring counter at the origin.",
         "The origin hook sets all counters of a fresh container to k (the state after k events were sent and consumed); states with leftovers at the wrap are reached by the scripts themselves.", "6 C15"),
 "C19": ("generated measurement sequences x 2..3 recorder threads + a reader x thread schedules on a StreamExecutor's public incremental-average metric; count / mean / per-probe explainability oracle",
         "Exploration: generated (measurements, schedule) pairs; final count exact, final mean within tolerance, every probe's (count, average) explainable by one prefix per recorder consistent with call/return times.",
         "Counts far below the documented u32::MAX reset; tolerance 1e-4 relative to the largest magnitude in play.", "6 C19"),
 "C05": ("generated send / receive / handle-clone / into-shared / release histories x thread schedules, incl. teardown with events still buffered, with a destructor-carrying payload; drop-ledger + address + waker-generation oracles; crashes of the library are caught by running the search in a supervised child process",
         "Exploration: generated (workload, schedule) pairs on the Uni movable + zero-copy and Multi arc / ogre_arc kinds with a payload whose destructor reports to a ledger; exactly-once destruction, no destructor on garbage, payload intact while held, pooled storage not re-handed-out while held, no waker used after the channel dropped it, capacity restored; a third of the cases tear the channel down with leftovers.",
         "The payload holds no pointer, so even a destructor running on freed/garbage memory is recorded rather than crashing; real memory corruption kills the supervised child and is reported with the in-flight case as replay. No AddressSanitizer build in this tier.", "6 C05"),
 "C07": ("generated cancel_all_streams() placements x poll steps x sends x thread schedules on all 11 kinds; end-of-stream oracle decided at quiescence + id-reuse probe",
         "Exploration: generated (workload, schedule) pairs with a canceller thread on every channel kind; every stream must have answered end-of-stream when nothing can run any more (parked = violation), nothing yielded after the end, ids reusable and running count exact after the streams are dropped.",
         "cancel_all_streams() is driven under the controlled scheduler (streams may be dropped by their own thread as soon as they ended, as executor tasks do); ending one stream (flush_and_cancel_executor -> gracefully_end_stream) is exercised by the tokio workload part on Multi: the targeted listener processes everything accepted before the call and nothing sent after it ended, the others keep receiving everything.", "6 C07"),
 "C16": ("generated retry workloads (several producers re-sending handed-back inputs against one slow consumer, buffer almost full) x thread schedules on the Uni kinds; ledger + interval rule for 'full' + bounded own steps + capacity probe",
         "Exploration: generated (workload, schedule) pairs; a rejected send must leave nothing behind (never delivered, input handed back untouched), be justified by BUFFER_SIZE slots possibly taken at some instant of the call, return within a bounded number of the caller's own steps, and after all cycles exactly BUFFER_SIZE further sends are accepted.",
         "crossbeam's setter-based sends are only generated while the buffer cannot fill (they wait by documented design).", "6 C16"),
 "C17": ("generated listener creation / removal placements x one producer's fan-out x thread schedules on the six Multi kinds; prefix / suffix / exact ledger per listener role + capacity probe",
         "Exploration: generated (churn, schedule) pairs with scheduling points inside the live-list rebuild and the fan-out loop; stable listeners exact, added = gapless suffix, removed = gapless prefix, no payload storage left occupied. Known finding R8 (concurrent rebuild vs fan-out on the arc / ogre_arc kinds) is keyed per kind / role / symptom and only for schedules where the rebuild overlapped a send.",
         "See KNOWN_FINDINGS.txt: the R8 region stays checked for everything the finding cannot explain (invented / out-of-order events, panics, stalls, the mmap kind, non-overlapping schedules).", "6 C17"),
 "C20": ("generated split async sends (begin / other operations / resume or never resume) x thread schedules on the 10 kinds implementing send_with_async; stall verdict decided by the scheduler + ledger + quiescence oracle",
         "Exploration: generated (workload, schedule) pairs in which a setter stays suspended (1..3 polls, or for ever) while the same and other threads send, reserve, poll and query; a thread re-executing an operation that can only succeed once the suspended send completes is a decided stall (no timeout). Known finding R9 (both movable Uni kinds, by design) keyed per kind and stalled operation.",
         "A stall is decided as: every runnable thread keeps failing the same atomic operation with no write by anybody in between. The final drain also runs under the scheduler.", "6 C20"),
 "C01": ("generated producer scripts x driven consumer streams x thread schedules on the five Uni channel kinds; delivery-ledger oracle (exactly-once, integrity, rejected inputs handed back untouched)",
         "Exploration: thousands of generated (workload, schedule) pairs per run on all five Uni kinds, BUFFER_SIZE 2/4/8, MAX_STREAMS 1/2/4, counters next to the u32 wrap, every entry point (send, send_with, send_with_async, reserve+send_reserved), under a scheduler that owns every interleaving of the library's atomic operations and of its plain slot accesses; verdict by an implementation-independent ledger. Nothing is proved; small sizes, SC interleavings.",
         "Trusted: the verif shim, the scheduler, the adapters. crossbeam's internals are not instrumented (its operations are atomic under the scheduler; interleavings between them are exposed by yield points).", "6 C01"),
 "C03": ("generated producer scripts x fixed listener sets x thread schedules on the six Multi channel kinds; per-listener ledger + same-allocation oracle",
         "Exploration: generated (workload, schedule) pairs on all six Multi kinds (incl. the mmap log), 1..3 listeners, 1..3 producers, every entry point the kind implements; per-listener exactly-once + order + payload address identity across listeners.",
         "Arc kinds are kept below BUFFER_SIZE events (they wait by documented design when full). SC interleavings only.", "6 C03"),
 "C04": ("generated thread schedules over send / poll / park steps on all 11 channel kinds; quiescence oracle (parked stream + undelivered accepted event + no wake owed = lost wake-up), decided by the scheduler, no timeouts",
         "Exploration: generated (workload, schedule) pairs on every Uni and Multi kind, MAX_STREAMS 1/2 with 1..MAX_STREAMS driven streams, 0..B events pending beforehand, 1..3 producers over every entry point, occasional waker replacement; 'eventually' is decided exactly as 'nothing can run any more'.",
         "Streams are driven by the harness' own executor model (poll, park on Pending, re-poll on wake). SC interleavings only.", "6 C04"),
 # id: (technique, level text, level note, design ref)
 "C02": ("generated thread schedules + operation bursts on the two raw rings; Wing-Gong linearizability search vs bounded FIFO + interval rule for 'full'",
         "Exploration: thousands of generated (scenario, schedule) pairs per run on the raw rings at capacity 2/4 (incl. counters next to the u32 wrap), executed under a scheduler that owns every interleaving of the library's atomic operations; each history is decided exactly by an exhaustive linearizability search. Nothing is proved; small sizes, SC interleavings.",
         "Trusted: the verif shim (repr(transparent) atomics, pass-through semantics), the scheduler, the linearizability checker (unit-tested). Assumes sequential consistency.", "6 C02"),
 "C18": ("generated thread schedules + push/pop, enqueue/dequeue scripts on the four stand-alone containers; linearizability search vs bounded LIFO/FIFO",
         "Exploration: generated scripts x schedules on the atomic-flag stack, the two NonBlockingQueues and the parking-lot stack (capacity 2..8, 2..4 threads); every history decided by exhaustive linearizability search incl. exact 'full'/'empty' answers for the stacks.",
         "parking_lot's mutex is not instrumented (its operations are atomic under the controlled scheduler). SC interleavings only.", "6 C18"),
}
ALL = ["C%02d" % i for i in range(1, 21)]

manifest = {
  "version": 1,
  "setup_cmd": "cd /verif && ./check.sh build",
  "hooks": {
     "guard": "verif",
     "enable": "cargo feature `verif` of reactive-mutiny; the harness crate /verif/harness depends on /repo by path with features=[\"verif\"], so every check rebuilds /repo's working tree with hooks on",
     "baseline_off_cmd": "/verif/baseline_off.sh",
     "source_commits": repo_commits("verif hooks"),
     "add_only": True,
  },
  "engines": [
     {"name": "rmv", "path": "/verif/harness", "serves_properties": sorted(CHECKS.keys()),
      "kind_free_text": "Rust harness: proptest-generated cases (scripts, configurations, schedules) on 16 worker threads; E1 controlled scheduler over the verif atomic shim; oracles = ledgers, reference models, linearizability search; shrinking + schedule minimisation + replay files"},
  ],
  "checks": [],
  "not_applicable": [],
  "notes": "exit 0 = held on everything explored (KNOWN-FINDING lines allowed), 1 = VIOLATION line printed, 2 = inconclusive (watchdog / budget / harness error). Known findings: /verif/KNOWN_FINDINGS.txt. Regression replays: /verif/replays.",
}
for pid in ALL:
    if pid in CHECKS:
        tech, text, note, ref = CHECKS[pid]
        manifest["checks"].append({
            "property_id": pid,
            "quick_cmd": f"./check.sh {pid} quick",
            "thorough_cmd": f"./check.sh {pid} thorough",
            "evidence_file": f"/verif/evidence/{pid}.json",
            "replay_cmd_template": "./check.sh replay {path}",
            "engine": "rmv",
            "level_claimed": {"category": "exploration", "text": text, "design_ref": ref},
            "level_note": note,
            "technique": "property-based testing: " + tech,
        })
    else:
        manifest["not_applicable"].append({"property_id": pid, "reason": "not claimed"})
json.dump(manifest, open("/verif/MANIFEST.json", "w"), indent=1)
print("checks:", [c["property_id"] for c in manifest["checks"]])
