#!/bin/bash
# usage: tools_confirm.sh <dir with patch.diff + demo.rs> [scratch worktree]
# Confirms, in a scratch worktree of /repo (never in /repo): patch applies & compiles, pinned suite passes with it,
# demo fails with it and passes without it. Prints one summary line.
d="$(realpath "$1")"; wt="${2:-/tmp/wt/scratch}"
export CARGO_NET_OFFLINE=true
cd "$wt" || exit 2
git checkout -q -- . ; rm -f tests/demo.rs
feat=""; grep -q "verif" "$d/demo.rs" && feat="--features verif"
cp "$d/demo.rs" tests/demo.rs
without=$(timeout 900 cargo test --offline $feat --test demo -j8 2>&1 | grep -E "^test result" | tail -1)
pkill -f 'wt/scratch/target/debug/deps/dem[o]-' 2>/dev/null
git apply "$d/patch.diff" || { echo "CONFIRM $d: patch does not apply"; exit 1; }
with=$(timeout 900 cargo test --offline $feat --test demo -j8 2>&1 | grep -E "^test result|error(\[|:)" | tail -1)
pkill -f 'wt/scratch/target/debug/deps/dem[o]-' 2>/dev/null
rm -f tests/demo.rs
log=$(mktemp /tmp/confirm.XXXXXX)
cargo test --workspace --no-fail-fast --offline -j8 >"$log" 2>&1
suite=$(python3 - "$log" <<'PY'
import json,re,sys
log=open(sys.argv[1]).read()
stable=set(json.load(open('/root/.vp/BASELINE.json'))['stable_pass'])
passed=set(); target=None
for line in log.splitlines():
    m=re.match(r'\s*Running (?:unittests )?(\S+)',line)
    if m:
        p=m.group(1)
        target='reactive_mutiny' if p.startswith('src/lib.rs') else (p.split('/')[1].split('.')[0] if p.startswith('tests/') else None); continue
    if re.match(r'\s*Doc-tests',line): target=None; continue
    m=re.match(r'test (\S+) \.\.\. ok',line)
    if m and target: passed.add(target+'::'+m.group(1))
missing=sorted(s for s in stable if s not in passed)
print(f"{len(stable)-len(missing)}/{len(stable)} missing={missing[:4]}")
PY
)
rm -f "$log"
# tests that are timing-sensitive flake on a loaded machine: every missing one is re-run alone (up to 3 times) before it counts
miss=$(echo "$suite" | sed -n "s/.*missing=\[\(.*\)\]/\1/p" | tr -d "',")
if [ -n "$miss" ]; then
  still=""
  for t in $miss; do
    name="${t#*::}"; okk=0
    for i in 1 2 3; do if cargo test --offline -j8 --lib -- --exact "$name" 2>/dev/null | grep -q "test result: ok. 1 passed"; then okk=1; break; fi; done
    [ $okk -eq 1 ] || still="$still $t"
  done
  if [ -z "$still" ]; then suite="150/150 missing=[] (after re-running alone: $miss)"; fi
fi
git checkout -q -- .
echo "CONFIRM $d: demo-without=[$without] demo-with=[$with] suite-with=[$suite]"
