#!/bin/bash
# Mutant lab: a private copy of /verif (with its own harness build) + a scratch worktree of /repo under /tmp/mt, so seeded changes can be
# tried while /verif and /repo are being worked on.
#   tools_lab.sh sync                         refresh the lab copy from /verif (sources only; its build output is kept) and the worktree to /repo's HEAD
#   tools_lab.sh run <name-pattern>           run the seeded changes matching the pattern (as tools_mutant_all.sh) in the lab; results: /tmp/mt/verif/seeded/RESULTS.txt
#   tools_lab.sh collect <agent out dir> <seeded name>   confirm a sub-agent deliverable (scratch worktree /tmp/wt/scratch), keep it as /verif/seeded/<name>/, run it in the lab
L=/tmp/mt
case "$1" in
  sync)
    mkdir -p $L; [ -d $L/repo ] || git -C /repo worktree add --detach $L/repo HEAD >/dev/null 2>&1
    git -C $L/repo checkout -q --detach "$(git -C /repo rev-parse HEAD)"
    rsync -a --delete --exclude .git --exclude 'harness/target*' --exclude fuzz/target --exclude evidence /verif/ $L/verif/ ; mkdir -p $L/verif/evidence;;
  run)
    REPO=$L/repo VERIF_DIR=$L/verif $L/verif/tools_mutant_all.sh "$2";;
  collect)
    src="$2"; name="$3"
    conf=$(/verif/tools_confirm.sh "$src" /tmp/wt/scratch 2>&1 | grep "^CONFIRM"); echo "$conf"
    echo "$conf" | grep -q "demo-without=\[test result: ok" || { echo "NOT KEPT ($name): demo does not pass on the unchanged tree"; exit 1; }
    echo "$conf" | grep -q "demo-with=\[\(error\|test result: FAILED\)" || { echo "NOT KEPT ($name): demo does not fail with the change"; exit 1; }
    echo "$conf" | grep -q "suite-with=\[150/150" || { echo "NOT KEPT ($name): pinned suite does not pass with the change"; exit 1; }
    mkdir -p /verif/seeded/$name; cp "$src"/{patch.diff,demo.rs,meta.json,notes.md} /verif/seeded/$name/ 2>/dev/null
    python3 - /verif/seeded/$name/meta.json "$conf" <<'PY'
import json,sys
p=sys.argv[1]
try: m=json.load(open(p))
except Exception: m={}
m['confirmed_in_scratch_worktree']=sys.argv[2]
json.dump(m,open(p,'w'),indent=1)
PY
    rsync -a /verif/seeded/$name/ $L/verif/seeded/$name/
    REPO=$L/repo VERIF_DIR=$L/verif $L/verif/tools_mutant_all.sh "$name";;
esac
