#!/bin/bash
# runs every registered quick check on the current trees (regenerates evidence/), prints one line per property; exit 0 iff all exited 0
cd "$(dirname "$0")"; bad=0
for id in $(python3 -c "import json; print(' '.join(c['property_id'] for c in json.load(open('MANIFEST.json'))['checks']))"); do
  s=$(date +%s); out=$(./check.sh $id quick 2>&1); rc=$?
  echo "$id rc=$rc $(( $(date +%s)-s ))s $(echo "$out" | grep -E '^property=' | tail -1 | sed 's/property=[A-Z0-9]* //')"
  [ $rc -ne 0 ] && { bad=1; echo "$out" | grep -E "^VIOLATION|signature=|HARNESS|INCONCL" | cut -c1-300; }
done
exit $bad
